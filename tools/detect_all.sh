#!/bin/bash
# runs the owning property's check (and optionally others) against every seeded change; one line per run
OUT=${OUT:-/tmp/mut/detect.log}; : > $OUT
cd /verif
one() { d=$1; id=$2; secs=${3:-15}
  out=$(tools/mutant.sh $d/patch.diff $id $secs 2>&1); rc=$?
  sigs=$(echo "$out" | grep -E "^  class=" | sed 's/^  //' | tr '\n' ';' | cut -c1-400)
  echo "$d check=$id exit=$rc $sigs" >> $OUT
}
for a in ${AGENTS:-C01a C02a C07a C09a C10a C11a C12a C13a C15a C16a}; do
  id=${a:0:3}
  for m in /tmp/mut/$a/mutants/m*; do [ -f $m/patch.diff ] && one $m $id ${SECS:-15}; done
done
[ -z "$AGENTS" ] && one /tmp/mut/C11a/mutants/m3 C02 15
echo DONE >> $OUT
