#!/bin/sh
# tools/confirm.sh <mutant dir> [demo test file] [package dir] [go test -run pattern]
# Confirms a seeded change independently: the patch applies to HEAD, the tree builds, the repository's own
# test suite passes with it, and (if a demo is given) the demo fails with the patch and passes without it.
d=$(readlink -f "$1"); demo="$2"; pkg="$3"; pat="$4"
wt=/tmp/ecalverif-confirm.$$
export GOFLAGS=-mod=mod GOPROXY=off GOSUMDB=off
git -C /repo worktree add -q "$wt" HEAD || exit 2
trap 'git -C /repo worktree remove --force "$wt" >/dev/null 2>&1 || rm -rf "$wt"' EXIT
cd "$wt"
if [ -n "$demo" ]; then
  cp "$d/$demo" "$wt/$pkg/" || exit 2
  echo "--- demo WITHOUT the change:"; (cd "$wt" && timeout 300 go test -count=1 -run "$pat" "./$pkg/" 2>&1 | tail -3)
fi
git apply "$d/patch.diff" || { echo "PATCH DOES NOT APPLY"; exit 2; }
if [ -n "$demo" ]; then
  echo "--- demo WITH the change:"; (cd "$wt" && timeout 300 go test -count=1 -run "$pat" "./$pkg/" 2>&1 | tail -4)
  rm -f "$wt/$pkg/$demo"
fi
echo "--- repository test suite WITH the change:"
go test -count=1 ./... 2>&1 | grep -v "no test files" | grep -v "^ok" | head -20
echo "(suite done; lines above, if any, are failures)"
