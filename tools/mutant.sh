#!/bin/sh
# tools/mutant.sh <patch.diff> <ID> [seconds]  -- run a check against a scratch worktree of /repo with the patch applied.
# Exit code of the check is passed through (1 = the check detected the change). Nothing in /repo is modified.
set -e
patch=$(readlink -f "$1"); id="$2"; secs="${3:-20}"
wt=/tmp/ecalverif-mut.$$
git -C /repo worktree add -q "$wt" HEAD
trap 'git -C /repo worktree remove --force "$wt" >/dev/null 2>&1 || rm -rf "$wt"' EXIT
git -C "$wt" apply "$patch" || { echo "PATCH-DOES-NOT-APPLY $patch"; exit 3; }
cd "$(dirname "$0")/.."
set +e
VERIF_REPO="$wt" VERIF_SECONDS="$secs" ./check "$id" quick
rc=$?
exit $rc
