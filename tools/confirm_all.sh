#!/bin/bash
# Confirms every seeded change found under /tmp/mut/*/mutants/m*/ independently (see tools/confirm.sh) and
# appends one line per mutant to $OUT: id result-without result-with suite
export GOFLAGS=-mod=mod GOPROXY=off GOSUMDB=off
OUT=${OUT:-/tmp/mut/confirm.log}
spec() { # dir pkg pattern [tags] [timeout]
  d=/tmp/mut/$1; pkg=$2; pat=$3; tags=$4; to=${5:-300}
  wt=/tmp/ecalverif-confirm.$$.$RANDOM
  git -C /repo worktree add -q "$wt" HEAD || return
  for f in $d/*_test.go $d/*_test.go.txt $d/_*_test.go; do
    [ -f "$f" ] || continue
    b=$(basename "$f"); b=${b%.txt}; b=${b#_}
    # choose the package directory from the package clause
    p=$(grep -m1 '^package ' "$f" | awk '{print $2}')
    case "$p" in pool) dest=engine/pool;; engine) dest=engine;; parser) dest=parser;; interpreter) dest=interpreter;; scope) dest=scope;; util) dest=util;; *) dest=$pkg;; esac
    cp "$f" "$wt/$dest/zz_$b"
  done
  tg=""; [ -n "$tags" ] && tg="-tags $tags"
  run() { (cd "$wt" && timeout $((to+60)) go test -count=1 $tg -timeout ${to}s -run "$pat" $pkg >/tmp/mut/demo.$$.out 2>&1; echo $?); }
  r0=$(run)
  (cd "$wt" && git apply "$d/patch.diff") || { echo "$1 PATCH-DOES-NOT-APPLY" >> $OUT; git -C /repo worktree remove --force "$wt"; return; }
  r1=$(run); tail -3 /tmp/mut/demo.$$.out | tr '\n' ' ' | cut -c1-200 > /tmp/mut/demo.$$.tail
  rm -f "$wt"/*/zz_*_test.go "$wt"/engine/pool/zz_*_test.go
  suite=$(cd "$wt" && go test -count=1 ./... 2>&1 | grep -v "no test files" | grep -v "^ok" | grep -E "^(FAIL|---|panic)" | tr '\n' ' ' | cut -c1-200)
  echo "$1 demo_without_exit=$r0 demo_with_exit=$r1 suite_failures=[${suite}] with_tail=[$(cat /tmp/mut/demo.$$.tail)]" >> $OUT
  git -C /repo worktree remove --force "$wt"
}
: > $OUT
spec C01a/mutants/m1 ./engine/ TestC01M1
spec C01a/mutants/m2 ./engine/ TestC01M2
spec C01a/mutants/m3 ./engine/ TestC01M3
spec C02a/mutants/m1 ./engine/ TestC02M1
spec C02a/mutants/m2 ./engine/ TestC02M2
spec C02a/mutants/m3 ./engine/ TestC02M3 "" 600
spec C07a/mutants/m1 ./parser/ TestC07M1
spec C07a/mutants/m2 "./parser/ ./interpreter/" TestC07M2
spec C07a/mutants/m3 ./parser/ TestC07M3
spec C09a/mutants/m1 ./engine/pool/ TestC09M1 c09demo 120
spec C09a/mutants/m2 ./engine/pool/ TestC09M2 c09demo 120
spec C09a/mutants/m3 ./engine/pool/ TestC09M3 c09demo 180
spec C10a/mutants/m1 ./engine/ TestC10M1
spec C10a/mutants/m2 ./engine/ TestC10M2
spec C10a/mutants/m3 "./engine/ ./interpreter/" TestC10M3
spec C11a/mutants/m1 ./interpreter/ TestC11M1
spec C11a/mutants/m2 ./interpreter/ TestC11M2
spec C11a/mutants/m3 ./interpreter/ TestC11M3 "" 600
spec C12a/mutants/m1 ./interpreter/ TestC12M1
spec C12a/mutants/m2 ./interpreter/ TestC12M2
spec C12a/mutants/m3 ./interpreter/ TestC12M3
spec C13a/mutants/m1 ./interpreter/ TestC13M1
spec C13a/mutants/m2 ./parser/ TestC13M2
spec C13a/mutants/m3 ./parser/ TestC13M3
spec C15a/mutants/m1 ./interpreter/ TestMutantM1
spec C15a/mutants/m2 ./interpreter/ TestMutantM2
spec C15a/mutants/m3 ./interpreter/ TestMutantM3
spec C16a/mutants/m1 ./interpreter/ TestC16M1
spec C16a/mutants/m2 ./interpreter/ TestC16M2
spec C16a/mutants/m3 ./interpreter/ TestC16M3
echo DONE >> $OUT
