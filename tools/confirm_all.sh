#!/bin/bash
# tools/confirm_all.sh <mutant dir>...   (default: every /tmp/mut/*/mutants/m*)
# Confirms each seeded change independently in a scratch worktree of /repo HEAD: the demonstration passes without
# the change, fails with it, and the repository's own suite passes with it.  One line per mutant in $OUT.
export GOFLAGS=-mod=mod GOPROXY=off GOSUMDB=off
OUT=${OUT:-/tmp/mut/confirm.log}
spec() { d=$1; to=${2:-400}
  wt=/tmp/ecalverif-confirm.$$.$RANDOM
  git -C /repo worktree add -q "$wt" HEAD || return
  pkgs=""; pat=""; tags=""
  for f in $d/*_test.go $d/*_test.go.txt $d/_*_test.go; do
    [ -f "$f" ] || continue
    b=$(basename "$f"); b=${b%.txt}; b=${b#_}
    p=$(grep -m1 '^package ' "$f" | awk '{print $2}')
    case "$p" in pool) dest=engine/pool;; engine|engine_test) dest=engine;; parser|parser_test) dest=parser;; interpreter|interpreter_test) dest=interpreter;; scope) dest=scope;; util) dest=util;; tool|tool_test) dest=cli/tool;; pool_test) dest=engine/pool;; *) dest=interpreter;; esac
    cp "$f" "$wt/$dest/zz_$b"
    case " $pkgs " in *" ./$dest/ "*) ;; *) pkgs="$pkgs ./$dest/";; esac
    for t in $(grep -o '^func Test[A-Za-z0-9_]*' "$f" | awk '{print $2}'); do pat="${pat:+$pat|}^$t\$"; done
    grep -q 'c09demo' "$f" && tags="-tags c09demo"
  done
  run() { (cd "$wt" && timeout $((to+60)) go test -count=1 $tags -timeout ${to}s -run "$pat" $pkgs >/tmp/mut/demo.$$.out 2>&1; echo $?); }
  r0=$(run)
  (cd "$wt" && git apply "$d/patch.diff") || { echo "$d PATCH-DOES-NOT-APPLY" >> $OUT; git -C /repo worktree remove --force "$wt"; return; }
  r1=$(run); tail -3 /tmp/mut/demo.$$.out | tr '\n' ' ' | cut -c1-160 > /tmp/mut/demo.$$.tail
  find "$wt" -name 'zz_*_test.go' -delete
  suite=$(cd "$wt" && go test -count=1 ./... 2>&1 | grep -v "no test files" | grep -v "^ok" | grep -E "^(FAIL|---|panic)" | tr '\n' ' ' | cut -c1-200)
  echo "$d demo_without_exit=$r0 demo_with_exit=$r1 suite_failures=[${suite}] pattern=[$pat] with_tail=[$(cat /tmp/mut/demo.$$.tail)]" >> $OUT
  git -C /repo worktree remove --force "$wt"
}
: > $OUT
if [ $# -eq 0 ]; then set -- /tmp/mut/*/mutants/m*; fi
for d in "$@"; do [ -f "$d/patch.diff" ] && spec "$d"; done
echo DONE >> $OUT
