#!/usr/bin/env python3
"""Builds /verif/seeded/<id>/ (patch.diff, demonstration, notes.md, meta.json) from the mutation sub-agents'
worktrees under /tmp/mut, the independent confirmation logs (tools/confirm_all.sh) and the detection log
(tools/detect_all.sh).  Only changes whose demonstration passed without and failed with the change, and with
which the repository's own suite passed (known flaky cli/tool tests aside), are kept."""
import json, os, re, shutil, sys, glob
sys.path.insert(0, os.path.dirname(__file__))
from seeded_table import TABLE
confirm = {}
for log in sys.argv[1].split(','):
    for l in open(log):
        m = re.match(r'(\S*?/)?(C\d\d[a-z])/mutants/(m\d) demo_without_exit=(\d+) demo_with_exit=(\d+) suite_failures=\[(.*?)\]', l)
        if m:
            confirm[f"{m.group(2)}/{m.group(3)}"] = dict(demo_without_exit=int(m.group(4)), demo_with_exit=int(m.group(5)), suite_failures=m.group(6).strip())
detect = {}
for l in open(sys.argv[2]):
    m = re.match(r'\S*?(C\d\d[a-z])/mutants/(m\d) check=(C\d\d) exit=(\d+) ?(.*)', l)
    if m:
        sigs = sorted(set(x.strip() for x in m.group(5).split(';') if x.strip()))
        detect.setdefault(f"{m.group(1)}/{m.group(2)}", []).append(dict(check=m.group(3), exit=int(m.group(4)), signatures=sigs))
FLAKY = ("TestHandleInput", "cli/tool", "TestPack", "Cannot add rule if the processor has not stopped")
kept, dropped = [], []
for key in sorted(TABLE):
    agent, mi = key.split('/')
    src = f"/tmp/mut/{agent}/mutants/{mi}"
    c = confirm.get(key)
    if not c or not os.path.exists(src + "/patch.diff"):
        dropped.append((key, "not confirmed / missing")); continue
    suite_ok = (c['suite_failures'] == "" or any(f in c['suite_failures'] for f in FLAKY))
    if c['demo_without_exit'] != 0 or c['demo_with_exit'] == 0 or not suite_ok:
        dropped.append((key, f"confirmation failed: {c}")); continue
    prop = agent[:3]
    sid = f"{prop}-{agent[3]}{mi[1]}"
    dst = f"/verif/seeded/{sid}"
    shutil.rmtree(dst, ignore_errors=True); os.makedirs(dst)
    for f in os.listdir(src):
        p = os.path.join(src, f)
        if os.path.isfile(p) and os.path.getsize(p) < 400000 and not f.endswith('.test') and not f.endswith('_out.txt'):
            shutil.copy(p, dst)
    what, needs = TABLE[key]
    d = detect.get(key, [])
    meta = dict(id=sid, property=prop, source=f"mutation sub-agent {agent}, change {mi} (given only the property text and a scratch worktree)",
                breaks=what, needs_to_manifest=needs,
                confirmed_independently=dict(how="tools/confirm_all.sh in a scratch worktree of /repo HEAD: demonstration copied into its package, run without the change, patch applied with git apply, demonstration run again, demonstration removed, `go test -count=1 ./...`",
                                             **c),
                checks_run=d, detected=any(x['exit'] == 1 for x in d))
    json.dump(meta, open(dst + "/meta.json", "w"), indent=1)
    kept.append((sid, meta['detected'], [x['check'] for x in d if x['exit'] == 1]))
print("kept", len(kept)); print("dropped", dropped)
for k in kept: print(k)
