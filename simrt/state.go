package simrt

import (
	"reflect"
	"sort"
	"unsafe"
)

// Package-level state of the program under test.  The instrumenter generates one
// file per instrumented package that registers every package-level variable.  The
// first Run of a process snapshots them; every later Run restores the snapshot first,
// so that a run which changes process-wide state (a memo table, a counter, a grammar
// table entry, a free list behind a pointer) cannot influence the next run and replays
// in the same process see what the original run saw.
//
// Depth of the snapshot: maps and slices are copied (their elements by value);
// structs field by field; a pointer to a struct type of the program under test is
// followed (two levels) and the pointee is restored in place, so that the pointer
// keeps its identity.  Anything further away is not restored.

const programModule = "github.com/krotik/ecal"

type stateVar struct {
	name string
	ptr  reflect.Value // pointer to the variable
}

var (
	stateVars    []*stateVar
	stateTaken   bool
	stateRestore []func()
)

// RegisterVar is called from generated init functions.
func RegisterVar(name string, ptr interface{}) {
	v := reflect.ValueOf(ptr)
	if v.Kind() != reflect.Ptr || v.IsNil() {
		return
	}
	stateVars = append(stateVars, &stateVar{name: name, ptr: v})
}

func cloneShallow(v reflect.Value) reflect.Value {
	switch v.Kind() {
	case reflect.Map:
		if v.IsNil() {
			return reflect.Zero(v.Type()) // (not v itself: v aliases the live variable)
		}
		m := reflect.MakeMapWithSize(v.Type(), v.Len())
		it := v.MapRange()
		for it.Next() {
			m.SetMapIndex(it.Key(), it.Value())
		}
		return m
	case reflect.Slice:
		if v.IsNil() {
			return reflect.Zero(v.Type())
		}
		s := reflect.MakeSlice(v.Type(), v.Len(), v.Len())
		reflect.Copy(s, v)
		return s
	default:
		c := reflect.New(v.Type()).Elem()
		c.Set(v)
		return c
	}
}

func inProgram(t reflect.Type) bool {
	pp := t.PkgPath()
	return len(pp) >= len(programModule) && pp[:len(programModule)] == programModule
}

// snapshotInto records how to restore the addressable value v.
func snapshotInto(v reflect.Value, depth int) {
	switch v.Kind() {
	case reflect.Ptr:
		saved := cloneShallow(v)
		stateRestore = append(stateRestore, func() { v.Set(saved) })
		if !v.IsNil() && depth < 2 && v.Elem().Kind() == reflect.Struct && inProgram(v.Elem().Type()) {
			snapshotInto(v.Elem(), depth+1)
		}
	case reflect.Struct:
		if !inProgram(v.Type()) {
			saved := cloneShallow(v)
			stateRestore = append(stateRestore, func() { v.Set(saved) })
			return
		}
		for i := 0; i < v.NumField(); i++ {
			f := v.Field(i)
			// (fields may be unexported: address them directly)
			f = reflect.NewAt(f.Type(), unsafe.Pointer(f.UnsafeAddr())).Elem()
			snapshotInto(f, depth)
		}
	default:
		saved := cloneShallow(v)
		stateRestore = append(stateRestore, func() { v.Set(cloneShallow(saved)) })
	}
}

func resetProgramState() {
	if !stateTaken {
		stateTaken = true
		sort.SliceStable(stateVars, func(i, j int) bool { return stateVars[i].name < stateVars[j].name })
		for _, sv := range stateVars {
			snapshotInto(sv.ptr.Elem(), 0)
		}
		return
	}
	for _, f := range stateRestore {
		f()
	}
}

// StateVars returns the number of registered package-level variables.
func StateVars() int { return len(stateVars) }
