package simrt

import (
	"reflect"
	"sort"
)

// Package-level state of the program under test.  The instrumenter generates one
// file per instrumented package that registers every package-level variable.  The
// first Run of a process snapshots them (one level deep: maps and slices are
// copied, everything else by value); every later Run restores the snapshot first,
// so that a run which changes process-wide state (a memo table, a counter, a
// grammar table entry) cannot influence the next run and replays in the same
// process see what the original run saw.  State reachable only through pointers is
// not restored.

type stateVar struct {
	name string
	ptr  reflect.Value // pointer to the variable
	snap reflect.Value
}

var (
	stateVars  []*stateVar
	stateTaken bool
)

// RegisterVar is called from generated init functions.
func RegisterVar(name string, ptr interface{}) {
	v := reflect.ValueOf(ptr)
	if v.Kind() != reflect.Ptr || v.IsNil() {
		return
	}
	stateVars = append(stateVars, &stateVar{name: name, ptr: v})
}

func cloneShallow(v reflect.Value) reflect.Value {
	switch v.Kind() {
	case reflect.Map:
		if v.IsNil() {
			return reflect.Zero(v.Type()) // (not v itself: v aliases the live variable)
		}
		m := reflect.MakeMapWithSize(v.Type(), v.Len())
		it := v.MapRange()
		for it.Next() {
			m.SetMapIndex(it.Key(), it.Value())
		}
		return m
	case reflect.Slice:
		if v.IsNil() {
			return reflect.Zero(v.Type())
		}
		s := reflect.MakeSlice(v.Type(), v.Len(), v.Len())
		reflect.Copy(s, v)
		return s
	default:
		c := reflect.New(v.Type()).Elem()
		c.Set(v)
		return c
	}
}

func resetProgramState() {
	if !stateTaken {
		stateTaken = true
		sort.SliceStable(stateVars, func(i, j int) bool { return stateVars[i].name < stateVars[j].name })
		for _, sv := range stateVars {
			sv.snap = cloneShallow(sv.ptr.Elem())
		}
		return
	}
	for _, sv := range stateVars {
		sv.ptr.Elem().Set(cloneShallow(sv.snap))
	}
}

// StateVars returns the number of registered package-level variables.
func StateVars() int { return len(stateVars) }
