package simrt

// rng is a small splitmix64/xorshift PRNG (own implementation so that the stream
// never depends on the Go release).
type rng struct{ s uint64 }

func (r *rng) seed(x uint64) { r.s = x*0x9E3779B97F4A7C15 + 0x1234567 }

func (r *rng) next() uint64 {
	r.s += 0x9E3779B97F4A7C15
	z := r.s
	z = (z ^ (z >> 30)) * 0xBF58476D1CE4E5B9
	z = (z ^ (z >> 27)) * 0x94D049BB133111EB
	return z ^ (z >> 31)
}

func (r *rng) intn(n int) int {
	if n <= 1 {
		return 0
	}
	return int(r.next() % uint64(n))
}

func (r *rng) float() float64 { return float64(r.next()>>11) / (1 << 53) }

// RNG is an exported deterministic PRNG for plan generation in harnesses.
type RNG struct{ r rng }

// NewRNG returns a PRNG seeded with x.
func NewRNG(x uint64) *RNG { g := &RNG{}; g.r.seed(x); return g }

// Intn returns a value in [0,n).
func (g *RNG) Intn(n int) int { return g.r.intn(n) }

// Float returns a value in [0,1).
func (g *RNG) Float() float64 { return g.r.float() }

// Bool returns true with probability p.
func (g *RNG) Bool(p float64) bool { return g.r.float() < p }

// U64 returns 64 random bits.
func (g *RNG) U64() uint64 { return g.r.next() }

// Mix hashes values into one seed.
func Mix(vals ...uint64) uint64 {
	h := uint64(0xcbf29ce484222325)
	for _, v := range vals {
		h ^= v
		h *= 0x100000001b3
		h ^= h >> 29
		h *= 0xBF58476D1CE4E5B9
		h ^= h >> 32
	}
	return h
}
