// Package simrand serves the top-level functions of math/rand from the
// simulator's decision tape; everything else is re-exported.
package simrand

import (
	"math/rand"

	"simrt"
)

type (
	Rand   = rand.Rand
	Source = rand.Source
)

var (
	New       = rand.New
	NewSource = rand.NewSource
)

// Intn returns a value in [0,n) chosen by the scheduler.
func Intn(n int) int {
	if n <= 0 {
		panic("invalid argument to Intn")
	}
	if s := simrt.Enter(); s != nil {
		return s.RandIntn(n)
	}
	return 0
}

// Int63n, Int31n, Int: small ranges only are drawn from the tape.
func Int63n(n int64) int64 { return int64(Intn(int(n))) }
func Int31n(n int32) int32 { return int32(Intn(int(n))) }
func Int() int             { return Intn(1 << 16) }

// Float64 returns a value in [0,1) with 1/1024 granularity chosen by the scheduler.
func Float64() float64 { return float64(Intn(1024)) / 1024 }

// Seed is a no-op.
func Seed(int64) {}
