// Package simatomic wraps the functions of sync/atomic so that the simulator's
// happens-before monitor sees the synchronisation they provide (Go memory model:
// atomic operations behave as if executed in a sequentially consistent order; a
// load that observes a store is synchronised after it).  Values are still read and
// written with the real atomic functions.  The method-based types (atomic.Value,
// atomic.Int64, ...) are re-exported unchanged: they are not tracked, which can only
// make the monitor report a race that such a type orders - none of the instrumented
// packages uses them for publication today.
package simatomic

import (
	"sync/atomic"
	"unsafe"

	"simrt"
)

type (
	Value   = atomic.Value
	Int32   = atomic.Int32
	Int64   = atomic.Int64
	Uint32  = atomic.Uint32
	Uint64  = atomic.Uint64
	Uintptr = atomic.Uintptr
	Bool    = atomic.Bool
)

func rel(p unsafe.Pointer) { simrt.AtomicSync(p, true, true) }
func acq(p unsafe.Pointer) { simrt.AtomicSync(p, true, false) }

func AddInt32(addr *int32, delta int32) int32 { rel(unsafe.Pointer(addr)); return atomic.AddInt32(addr, delta) }
func AddInt64(addr *int64, delta int64) int64 { rel(unsafe.Pointer(addr)); return atomic.AddInt64(addr, delta) }
func AddUint32(addr *uint32, delta uint32) uint32 {
	rel(unsafe.Pointer(addr))
	return atomic.AddUint32(addr, delta)
}
func AddUint64(addr *uint64, delta uint64) uint64 {
	rel(unsafe.Pointer(addr))
	return atomic.AddUint64(addr, delta)
}
func AddUintptr(addr *uintptr, delta uintptr) uintptr {
	rel(unsafe.Pointer(addr))
	return atomic.AddUintptr(addr, delta)
}

func LoadInt32(addr *int32) int32       { acq(unsafe.Pointer(addr)); return atomic.LoadInt32(addr) }
func LoadInt64(addr *int64) int64       { acq(unsafe.Pointer(addr)); return atomic.LoadInt64(addr) }
func LoadUint32(addr *uint32) uint32    { acq(unsafe.Pointer(addr)); return atomic.LoadUint32(addr) }
func LoadUint64(addr *uint64) uint64    { acq(unsafe.Pointer(addr)); return atomic.LoadUint64(addr) }
func LoadUintptr(addr *uintptr) uintptr { acq(unsafe.Pointer(addr)); return atomic.LoadUintptr(addr) }
func LoadPointer(addr *unsafe.Pointer) unsafe.Pointer {
	acq(unsafe.Pointer(addr))
	return atomic.LoadPointer(addr)
}

func StoreInt32(addr *int32, v int32)       { rel(unsafe.Pointer(addr)); atomic.StoreInt32(addr, v) }
func StoreInt64(addr *int64, v int64)       { rel(unsafe.Pointer(addr)); atomic.StoreInt64(addr, v) }
func StoreUint32(addr *uint32, v uint32)    { rel(unsafe.Pointer(addr)); atomic.StoreUint32(addr, v) }
func StoreUint64(addr *uint64, v uint64)    { rel(unsafe.Pointer(addr)); atomic.StoreUint64(addr, v) }
func StoreUintptr(addr *uintptr, v uintptr) { rel(unsafe.Pointer(addr)); atomic.StoreUintptr(addr, v) }
func StorePointer(addr *unsafe.Pointer, v unsafe.Pointer) {
	rel(unsafe.Pointer(addr))
	atomic.StorePointer(addr, v)
}

func SwapInt32(addr *int32, v int32) int32       { rel(unsafe.Pointer(addr)); return atomic.SwapInt32(addr, v) }
func SwapInt64(addr *int64, v int64) int64       { rel(unsafe.Pointer(addr)); return atomic.SwapInt64(addr, v) }
func SwapUint32(addr *uint32, v uint32) uint32   { rel(unsafe.Pointer(addr)); return atomic.SwapUint32(addr, v) }
func SwapUint64(addr *uint64, v uint64) uint64   { rel(unsafe.Pointer(addr)); return atomic.SwapUint64(addr, v) }
func SwapUintptr(addr *uintptr, v uintptr) uintptr { rel(unsafe.Pointer(addr)); return atomic.SwapUintptr(addr, v) }
func SwapPointer(addr *unsafe.Pointer, v unsafe.Pointer) unsafe.Pointer {
	rel(unsafe.Pointer(addr))
	return atomic.SwapPointer(addr, v)
}

func CompareAndSwapInt32(addr *int32, o, n int32) bool {
	rel(unsafe.Pointer(addr))
	return atomic.CompareAndSwapInt32(addr, o, n)
}
func CompareAndSwapInt64(addr *int64, o, n int64) bool {
	rel(unsafe.Pointer(addr))
	return atomic.CompareAndSwapInt64(addr, o, n)
}
func CompareAndSwapUint32(addr *uint32, o, n uint32) bool {
	rel(unsafe.Pointer(addr))
	return atomic.CompareAndSwapUint32(addr, o, n)
}
func CompareAndSwapUint64(addr *uint64, o, n uint64) bool {
	rel(unsafe.Pointer(addr))
	return atomic.CompareAndSwapUint64(addr, o, n)
}
func CompareAndSwapUintptr(addr *uintptr, o, n uintptr) bool {
	rel(unsafe.Pointer(addr))
	return atomic.CompareAndSwapUintptr(addr, o, n)
}
func CompareAndSwapPointer(addr *unsafe.Pointer, o, n unsafe.Pointer) bool {
	rel(unsafe.Pointer(addr))
	return atomic.CompareAndSwapPointer(addr, o, n)
}
