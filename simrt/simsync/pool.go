package simsync

import (
	"simrt"
)

// Pool is a deterministic sync.Pool: one process-wide LIFO free list per pool
// (sync.Pool may hand any item that was Put to any later Get, on any goroutine;
// it may also drop items at any time).  Get is a scheduling point; the
// simulator decides whether a pooled item is reused (simple alternative) or
// dropped.  Put happens-before the Get that returns the item.
type Pool struct {
	New func() interface{}

	epoch uint64
	items []poolItem
}

type poolItem struct {
	v  interface{}
	vc simrt.VC
}

func (p *Pool) sync(s *simrt.Sim) {
	if p.epoch != s.Epoch() {
		p.epoch, p.items = s.Epoch(), nil
	}
}

// Get takes an item from the pool or calls New.
func (p *Pool) Get() interface{} {
	s := simrt.Enter()
	if s == nil {
		if p.New != nil {
			return p.New()
		}
		return nil
	}
	p.sync(s)
	s.Tick()
	for len(p.items) > 0 {
		it := p.items[len(p.items)-1]
		p.items = p.items[:len(p.items)-1]
		if simrt.ChooseP(0.1) {
			simrt.Count("pool_item_dropped")
			continue // the pool let go of this item
		}
		s.Acquire(it.vc)
		simrt.Count("pool_item_reused")
		return it.v
	}
	if p.New != nil {
		return p.New()
	}
	return nil
}

// Put adds x to the pool.
func (p *Pool) Put(x interface{}) {
	if x == nil {
		return
	}
	s := simrt.Enter()
	if s == nil {
		return
	}
	p.sync(s)
	s.Tick()
	p.items = append(p.items, poolItem{x, s.Release(nil)})
	s.AfterRelease() // the object is visible to others from here on
}
