package simsync

import (
	"simrt"
)

// Map is a deterministic sync.Map: insertion-ordered, every operation is a
// scheduling point and a synchronising (acquire+release) access, Range visits
// the entries present at each step in insertion order.
type Map struct {
	epoch uint64
	m     map[interface{}]*mapEntry
	order []*mapEntry
}

type mapEntry struct {
	k, v    interface{}
	deleted bool
}

func (m *Map) enter() {
	s := simrt.Enter()
	if s != nil && m.epoch != s.Epoch() {
		m.epoch, m.m, m.order = s.Epoch(), nil, nil
	}
	if m.m == nil {
		m.m = map[interface{}]*mapEntry{}
	}
	if s != nil {
		simrt.AtomicSync(m, true, true)
	}
}

func (m *Map) Load(key interface{}) (interface{}, bool) {
	m.enter()
	if e := m.m[key]; e != nil {
		return e.v, true
	}
	return nil, false
}

func (m *Map) Store(key, value interface{}) { m.Swap(key, value) }

func (m *Map) Swap(key, value interface{}) (interface{}, bool) {
	m.enter()
	if e := m.m[key]; e != nil {
		old := e.v
		e.v = value
		return old, true
	}
	e := &mapEntry{k: key, v: value}
	m.m[key] = e
	m.order = append(m.order, e)
	return nil, false
}

func (m *Map) LoadOrStore(key, value interface{}) (interface{}, bool) {
	m.enter()
	if e := m.m[key]; e != nil {
		return e.v, true
	}
	e := &mapEntry{k: key, v: value}
	m.m[key] = e
	m.order = append(m.order, e)
	return value, false
}

func (m *Map) LoadAndDelete(key interface{}) (interface{}, bool) {
	m.enter()
	e := m.m[key]
	if e == nil {
		return nil, false
	}
	m.remove(e)
	return e.v, true
}

func (m *Map) remove(e *mapEntry) {
	e.deleted = true
	delete(m.m, e.k)
	for i, o := range m.order {
		if o == e {
			m.order = append(m.order[:i:i], m.order[i+1:]...)
			break
		}
	}
}

func (m *Map) Delete(key interface{}) { m.LoadAndDelete(key) }

func (m *Map) CompareAndSwap(key, old, new interface{}) bool {
	m.enter()
	if e := m.m[key]; e != nil && e.v == old {
		e.v = new
		return true
	}
	return false
}

func (m *Map) CompareAndDelete(key, old interface{}) bool {
	m.enter()
	if e := m.m[key]; e != nil && e.v == old {
		m.remove(e)
		return true
	}
	return false
}

func (m *Map) Clear() {
	m.enter()
	for _, e := range m.order {
		e.deleted = true
	}
	m.m, m.order = map[interface{}]*mapEntry{}, nil
}

func (m *Map) Range(f func(key, value interface{}) bool) {
	m.enter()
	snap := append([]*mapEntry(nil), m.order...)
	for _, e := range snap {
		if e.deleted {
			continue
		}
		if !f(e.k, e.v) {
			return
		}
		m.enter()
	}
}
