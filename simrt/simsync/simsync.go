// Package simsync provides drop-in replacements for the blocking primitives of
// package sync, implemented on the simrt scheduler.  Everything else of package
// sync is re-exported unchanged.
//
// Semantics (DESIGN.md §3.3):
//   - Mutex: no fairness; on release every blocked locker becomes runnable and
//     re-contends, the scheduler decides who wins.
//   - RWMutex: a pending Lock blocks new RLocks (documented behaviour); on writer
//     release the readers blocked at that moment are admitted together.
//   - Cond: Wait atomically registers the waiter and releases L; Signal wakes one
//     registered waiter (scheduler's choice), Broadcast all; a Signal without a
//     registered waiter is lost; no spurious wake-ups.
//
// Outside a simulation (or while a run is torn down) every operation is a
// trivial non-blocking no-op, so deferred unlocks unwind without effect.
package simsync

import (
	"fmt"
	"sync"

	"simrt"
)

// Re-exports.
type (
	Locker = sync.Locker
)

// ---------------------------------------------------------------------------

// Mutex is a simulated sync.Mutex.
type Mutex struct {
	epoch   uint64
	id      int
	held    bool
	owner   *simrt.Task
	waiters []*simrt.Task
	vc      simrt.VC
}

func (m *Mutex) sync(s *simrt.Sim) {
	if m.epoch != s.Epoch() {
		*m = Mutex{epoch: s.Epoch(), id: s.NewObj()}
	}
}

func (m *Mutex) name() string { return fmt.Sprintf("Mutex#%d", m.id) }

// Lock locks m.
func (m *Mutex) Lock() {
	s := simrt.Enter()
	if s == nil {
		return
	}
	m.sync(s)
	s.Tick()
	m.lock(s)
}

func (m *Mutex) lock(s *simrt.Sim) {
	for m.held {
		m.waiters = append(m.waiters, s.Cur())
		s.Ev("mblock", m.id)
		s.Block(m.name() + ".Lock")
	}
	m.held = true
	m.owner = s.Cur()
	s.Acquire(m.vc)
	s.NoteLock(m.owner, m.name())
	s.Ev("lock", m.id)
}

// TryLock tries to lock m.
func (m *Mutex) TryLock() bool {
	s := simrt.Enter()
	if s == nil {
		return true
	}
	m.sync(s)
	s.Tick()
	if m.held {
		s.Ev("trylock-fail", m.id)
		return false
	}
	m.lock(s)
	return true
}

// Unlock unlocks m.
func (m *Mutex) Unlock() {
	s := simrt.Enter()
	if s == nil {
		return
	}
	m.sync(s)
	s.Tick()
	m.unlock(s)
}

func (m *Mutex) unlock(s *simrt.Sim) {
	if !m.held {
		// the real runtime aborts the process with "fatal error: sync: unlock of
		// unlocked mutex"; report it as a crash of the task
		panic("sync: unlock of unlocked mutex")
	}
	m.held = false
	s.NoteUnlock(m.owner, m.name())
	m.owner = nil
	m.vc = s.Release(m.vc)
	for _, w := range m.waiters {
		s.MakeRunnable(w)
	}
	m.waiters = m.waiters[:0]
	s.Ev("unlock", m.id)
	s.AfterRelease()
}

// Held reports whether the mutex is held in the current run, and by which task.
func (m *Mutex) Held() (bool, *simrt.Task) {
	s := simrt.Enter()
	if s == nil || m.epoch != s.Epoch() {
		return false, nil
	}
	return m.held, m.owner
}

// ---------------------------------------------------------------------------

// RWMutex is a simulated sync.RWMutex.
type RWMutex struct {
	epoch    uint64
	id       int
	writer   bool
	wowner   *simrt.Task
	readers  int
	pendingW int
	rwait    []*simrt.Task // blocked readers
	wwait    []*simrt.Task // blocked writers
	granted  map[*simrt.Task]bool
	vcW      simrt.VC // released by writers
	vcR      simrt.VC // released by readers (joined)
}

func (m *RWMutex) sync(s *simrt.Sim) {
	if m.epoch != s.Epoch() {
		*m = RWMutex{epoch: s.Epoch(), id: s.NewObj()}
	}
}

func (m *RWMutex) name() string { return fmt.Sprintf("RWMutex#%d", m.id) }

// RLock locks m for reading.
func (m *RWMutex) RLock() {
	s := simrt.Enter()
	if s == nil {
		return
	}
	m.sync(s)
	s.Tick()
	t := s.Cur()
	if m.writer || m.pendingW > 0 {
		for {
			m.rwait = append(m.rwait, t)
			s.Ev("rblock", m.id)
			s.Block(m.name() + ".RLock")
			if m.granted[t] {
				// admitted by the releasing writer (reader count already raised)
				delete(m.granted, t)
				break
			}
			if !m.writer && m.pendingW == 0 {
				m.readers++
				break
			}
		}
	} else {
		m.readers++
	}
	s.Acquire(m.vcW)
	s.NoteLock(t, m.name()+".R")
	s.Ev("rlock", m.id)
}

// RUnlock undoes a single RLock call.
func (m *RWMutex) RUnlock() {
	s := simrt.Enter()
	if s == nil {
		return
	}
	m.sync(s)
	s.Tick()
	if m.readers <= 0 {
		panic("sync: RUnlock of unlocked RWMutex")
	}
	m.readers--
	s.NoteUnlock(s.Cur(), m.name()+".R")
	if s.HBOn() {
		m.vcR = s.Release(m.vcR)
	}
	if m.readers == 0 {
		for _, w := range m.wwait {
			s.MakeRunnable(w)
		}
		m.wwait = m.wwait[:0]
	}
	s.Ev("runlock", m.id)
	s.AfterRelease()
}

// Lock locks m for writing.
func (m *RWMutex) Lock() {
	s := simrt.Enter()
	if s == nil {
		return
	}
	m.sync(s)
	s.Tick()
	t := s.Cur()
	if m.writer || m.readers > 0 {
		m.pendingW++
		for m.writer || m.readers > 0 {
			m.wwait = append(m.wwait, t)
			s.Ev("wblock", m.id)
			s.Block(m.name() + ".Lock")
		}
		m.pendingW--
	}
	m.writer = true
	m.wowner = t
	s.Acquire(m.vcW)
	s.Acquire(m.vcR)
	s.NoteLock(t, m.name())
	s.Ev("wlock", m.id)
}

// Unlock unlocks m for writing.
func (m *RWMutex) Unlock() {
	s := simrt.Enter()
	if s == nil {
		return
	}
	m.sync(s)
	s.Tick()
	if !m.writer {
		panic("sync: Unlock of unlocked RWMutex")
	}
	m.writer = false
	s.NoteUnlock(m.wowner, m.name())
	m.wowner = nil
	m.vcW = s.Release(m.vcW)
	m.vcR = nil
	// readers blocked at this moment are admitted together (as sync.RWMutex does)
	if len(m.rwait) > 0 {
		if m.granted == nil {
			m.granted = map[*simrt.Task]bool{}
		}
		for _, r := range m.rwait {
			m.granted[r] = true
			m.readers++
			s.MakeRunnable(r)
		}
		m.rwait = m.rwait[:0]
	}
	for _, w := range m.wwait {
		s.MakeRunnable(w)
	}
	m.wwait = m.wwait[:0]
	s.Ev("wunlock", m.id)
	s.AfterRelease()
}

// TryLock / TryRLock.
func (m *RWMutex) TryLock() bool {
	s := simrt.Enter()
	if s == nil {
		return true
	}
	m.sync(s)
	s.Tick()
	if m.writer || m.readers > 0 {
		return false
	}
	m.writer = true
	m.wowner = s.Cur()
	s.Acquire(m.vcW)
	s.Acquire(m.vcR)
	s.NoteLock(m.wowner, m.name())
	return true
}

func (m *RWMutex) TryRLock() bool {
	s := simrt.Enter()
	if s == nil {
		return true
	}
	m.sync(s)
	s.Tick()
	if m.writer || m.pendingW > 0 {
		return false
	}
	m.readers++
	s.Acquire(m.vcW)
	s.NoteLock(s.Cur(), m.name()+".R")
	return true
}

// RLocker returns a Locker whose Lock/Unlock call RLock/RUnlock.
func (m *RWMutex) RLocker() Locker { return (*rlocker)(m) }

type rlocker RWMutex

func (r *rlocker) Lock()   { (*RWMutex)(r).RLock() }
func (r *rlocker) Unlock() { (*RWMutex)(r).RUnlock() }

// ---------------------------------------------------------------------------

// Cond is a simulated sync.Cond.
type Cond struct {
	L       Locker
	epoch   uint64
	id      int
	waiters []*condWaiter
}

type condWaiter struct {
	t        *simrt.Task
	signaled bool
	vc       simrt.VC
}

// NewCond returns a new Cond with Locker l.
func NewCond(l Locker) *Cond { return &Cond{L: l} }

func (c *Cond) sync(s *simrt.Sim) {
	if c.epoch != s.Epoch() {
		c.epoch = s.Epoch()
		c.id = s.NewObj()
		c.waiters = nil
	}
}

// Wait atomically unlocks c.L and suspends the calling task; it re-locks c.L
// before returning.
func (c *Cond) Wait() {
	s := simrt.Enter()
	if s == nil {
		return
	}
	c.sync(s)
	s.Tick()
	w := &condWaiter{t: s.Cur()}
	c.waiters = append(c.waiters, w)
	s.Ev("cwait", c.id)
	simrt.Count("cond_wait")
	// no probe between registration and release of L
	if m, ok := c.L.(*Mutex); ok {
		m.sync(s)
		m.unlock(s)
	} else {
		c.L.Unlock()
	}
	for !w.signaled {
		s.Block(fmt.Sprintf("Cond#%d.Wait", c.id))
	}
	s.Acquire(w.vc)
	s.Ev("cwake", c.id)
	if m, ok := c.L.(*Mutex); ok {
		m.sync(s)
		m.lock(s)
	} else {
		c.L.Lock()
	}
}

// Signal wakes one waiting task, if there is any.
func (c *Cond) Signal() {
	s := simrt.Enter()
	if s == nil {
		return
	}
	c.sync(s)
	s.Tick()
	n := len(c.waiters)
	if n == 0 {
		s.Ev("signal-lost", c.id)
		simrt.Count("signal_no_waiter")
		return
	}
	i := s.ChooseWake(n)
	w := c.waiters[i]
	c.waiters = append(c.waiters[:i], c.waiters[i+1:]...)
	w.signaled = true
	if s.HBOn() {
		w.vc = s.Release(nil)
	}
	s.MakeRunnable(w.t)
	s.Ev("signal", c.id)
}

// Broadcast wakes all waiting tasks.
func (c *Cond) Broadcast() {
	s := simrt.Enter()
	if s == nil {
		return
	}
	c.sync(s)
	s.Tick()
	var vc simrt.VC
	if s.HBOn() && len(c.waiters) > 0 {
		vc = s.Release(nil)
	}
	for _, w := range c.waiters {
		w.signaled = true
		w.vc = vc
		s.MakeRunnable(w.t)
	}
	c.waiters = nil
	s.Ev("broadcast", c.id)
}

// Waiters returns the number of tasks currently registered in Wait.
func (c *Cond) Waiters() int {
	s := simrt.Enter()
	if s == nil || c.epoch != s.Epoch() {
		return 0
	}
	return len(c.waiters)
}

// ---------------------------------------------------------------------------

// WaitGroup is a simulated sync.WaitGroup.
type WaitGroup struct {
	epoch   uint64
	id      int
	n       int
	waiters []*simrt.Task
	vc      simrt.VC
}

func (w *WaitGroup) sync(s *simrt.Sim) {
	if w.epoch != s.Epoch() {
		*w = WaitGroup{epoch: s.Epoch(), id: s.NewObj()}
	}
}

// Add adds delta to the counter.
func (w *WaitGroup) Add(delta int) {
	s := simrt.Enter()
	if s == nil {
		return
	}
	w.sync(s)
	s.Tick()
	w.n += delta
	if w.n < 0 {
		panic("sync: negative WaitGroup counter")
	}
	if delta < 0 && s.HBOn() {
		w.vc = s.Release(w.vc)
	}
	if w.n == 0 {
		for _, t := range w.waiters {
			s.MakeRunnable(t)
		}
		w.waiters = w.waiters[:0]
	}
	s.Ev("wgadd", w.id)
}

// Done decrements the counter.
func (w *WaitGroup) Done() { w.Add(-1) }

// Go runs f in a new task and tracks it.
func (w *WaitGroup) Go(f func()) {
	w.Add(1)
	simrt.Go("wg.Go", func() {
		defer w.Done()
		f()
	})
}

// Wait blocks until the counter is zero.
func (w *WaitGroup) Wait() {
	s := simrt.Enter()
	if s == nil {
		return
	}
	w.sync(s)
	s.Tick()
	for w.n > 0 {
		w.waiters = append(w.waiters, s.Cur())
		s.Ev("wgblock", w.id)
		s.Block(fmt.Sprintf("WaitGroup#%d.Wait", w.id))
	}
	s.Acquire(w.vc)
	s.Ev("wgwait", w.id)
}

// ---------------------------------------------------------------------------

// Once is a simulated sync.Once.
type Once struct {
	m    Mutex
	done bool
	ep   uint64
	real sync.Once
}

// Do calls f if and only if Do is being called for the first time.
func (o *Once) Do(f func()) {
	s := simrt.Enter()
	if s == nil {
		o.real.Do(f)
		return
	}
	if o.ep != s.Epoch() && !o.done {
		o.ep = s.Epoch()
	}
	o.m.Lock()
	defer o.m.Unlock()
	if !o.done {
		defer func() { o.done = true }()
		f()
	}
}
