// Package simrt is a deterministic one-runner scheduler for Go code whose
// synchronisation primitives, clock and randomness have been redirected to the
// drop-ins in simrt/simsync, simrt/simtime and simrt/simrand.
//
// Exactly one task (a real goroutine) holds the baton and runs; every other task
// is parked on its own channel or blocked inside a simulated primitive.  All
// choices (who runs next, for how long, which waiter a Signal wakes, workload
// choices) go through Sim.choose and are appended to the decision tape, so a run
// is a pure function of (workload, tape, code).
package simrt

import (
	"fmt"
	"runtime"
	"runtime/debug"
	"sort"
	"strings"
)

// Decision kinds (only used for statistics and exploration distributions; the
// tape itself is a flat list of integers).
const (
	KSlice = iota
	KNext
	KWake
	KWork
	KMapSalt
	nKinds
)

// Result classes.
const (
	ClassOK       = ""
	ClassPanic    = "task-panic"
	ClassDeadlock = "deadlock" // quiescence before completion
	ClassBudget   = "budget"   // probe budget exhausted (possible non-termination)
	ClassRace     = "hb-race"
)

// sliceTable maps a slice decision to a number of probes until the next
// pre-emption opportunity; 0 = never (run until the task blocks).
var sliceTable = []int{0, 1, 2, 3, 4, 6, 9, 14, 22, 35, 60, 120, 400, 1500}

// Policy holds the exploration distributions (ignored in replay).
type Policy struct {
	NoPreempt   float64 // probability that a slice decision is 0 (run until block)
	ShortBias   float64 // probability that a non-zero slice is drawn from the short half
	KeepCurrent float64 // probability to keep the current task at a slice expiry
	Starve      bool    // give some tasks a very low weight
	TimerEager  float64 // probability to fire the next timer although tasks are runnable
	WakeOldest  float64 // probability that Signal wakes the oldest waiter
	AfterUnlock float64 // probability to offer a pre-emption right after a lock release (check-then-act windows)
}

// Config of one run.
type Config struct {
	Replay    bool   // read decisions from Tape (positions beyond its end read 0)
	Tape      []int  // decisions to replay
	Seed      uint64 // exploration PRNG seed
	Policy    Policy
	MaxProbes int64 // probe budget (0 = default)
	HB        bool  // maintain vector clocks; report unordered map accesses (map-race)
	HBVars    bool  // also report unordered accesses to package-level variables (hb-race, C13)
	Trace     bool  // keep a readable event log
	TraceMax  int
}

// Result of one run.
type Result struct {
	Class      string   // "" = completed
	Msg        string   // human readable description
	Sig        string   // normalised signature (site / oracle) for known-finding matching
	Tape       []int    // decisions taken
	Hash       uint64   // hash of the sync-event trace
	Probes     int64    // number of probes executed
	Decisions  int      // number of tape entries with n>1
	Switches   int      // context switches
	Preempts   int      // non-forced context switches (pre-emptions at slice expiry)
	WakeChoice int      // Signal calls with more than one waiter
	MaxLive    int      // max simultaneously live tasks
	Tasks      int      // tasks created
	SimTimeNs  int64    // simulated clock at end
	TimerFires int      // timers fired
	EagerFires int      // timers fired while tasks were runnable
	Trace      []string // readable log (if Config.Trace)
	Blocked    []string // blocked-task report (deadlock)
	Stack      string   // panic stack
	Counters   map[string]int64
}

const (
	stRunnable = iota
	stBlocked
	stDone
)

// Task is a simulated goroutine.
type Task struct {
	ID       int
	Name     string
	wake     chan struct{}
	exited   chan struct{}
	state    int
	blockOn  string
	lastRun  int64 // step at which the task last held the baton
	weight   float64
	vc       VC
	held     []string // names of simulated locks held (mutexes by object id)
	lastSite int32
	until    int64 // timer deadline when sleeping
	timerSeq uint64
	started  bool
	aborted  bool
	Local    interface{} // harness-owned per-task slot
}

type timer struct {
	at  int64
	seq uint64
	t   *Task
	f   func()
	vc  VC
}

// Sim is the state of one run.
type Sim struct {
	cfg      Config
	tasks    []*Task
	cur      *Task
	rng      rng
	in       []int
	out      []int
	nontriv  int
	now      int64
	timers   []timer
	tseq     uint64
	step     int64
	probes   int64
	max      int64
	slice    int // probes left until next pre-emption opportunity (0 = infinite)
	aborting bool
	res      Result
	done     chan struct{}
	quiesceW *Task // task blocked in WaitQuiescent
	live     int
	objSeq   int
	epoch    uint64
	hash     uint64
	trace    []string
	counters map[string]int64
	mapSalt  uint64
	saltSet  bool
	hb       *hbState
	ptrSeq   map[interface{}]int
	ptrFresh int
	failed   bool
	siteCnt  map[int32]int64
	chans    map[uintptr]*simChan
	noted    map[interface{}]int
	atomic   int
}

var (
	cur      *Sim
	epochCtr uint64
	// SiteName translates a probe site id to "file:line" (set by the harness from
	// the table the instrumenter wrote).
	SiteName = func(id int32) string { return fmt.Sprintf("site#%d", id) }
)

// SiteFunc returns the function part of a site name ("file:line Func").
func SiteFunc(id int32) string {
	n := SiteName(id)
	if i := strings.Index(n, " "); i >= 0 {
		f := n[:i]
		if j := strings.LastIndex(f, ":"); j >= 0 {
			f = f[:j]
		}
		return f + ":" + n[i+1:]
	}
	return n
}

// Active returns the running simulation or nil (also nil while a run is being
// torn down).
func active() *Sim {
	s := cur
	if s == nil || s.aborting {
		return nil
	}
	return s
}

// Enter is used by the drop-in packages: nil means "no simulation, behave as a
// trivial single-threaded primitive".
func Enter() *Sim { return active() }

// Epoch identifies the current run; primitives reset their state when they see a
// new epoch (package-level mutexes survive runs).
func (s *Sim) Epoch() uint64 { return s.epoch }

// Run executes root as task 0 under the scheduler and returns when root returned,
// a violation was recorded, or nothing can run any more.
func Run(cfg Config, root func()) Result {
	if cur != nil {
		panic("simrt: nested Run")
	}
	resetProgramState()
	epochCtr++
	s := &Sim{cfg: cfg, done: make(chan struct{}, 1), epoch: epochCtr, counters: map[string]int64{}}
	s.rng.seed(cfg.Seed)
	s.in = cfg.Tape
	s.max = cfg.MaxProbes
	if s.max == 0 {
		s.max = 5_000_000
	}
	s.hash = 1469598103934665603
	if cfg.HB {
		s.hb = newHB()
	}
	cur = s
	t0 := s.newTask("root", nil)
	go s.taskMain(t0, root, true)
	s.cur = t0
	s.drawSlice()
	t0.started = true
	t0.wake <- struct{}{}
	<-s.done
	// Tear down: release every parked task one at a time so that deferred code in
	// the program under test unwinds sequentially.
	s.aborting = true
	for _, t := range s.tasks {
		if t.state != stDone {
			t.aborted = true
			t.wake <- struct{}{}
			<-t.exited
		}
	}
	cur = nil
	if s.res.Class == "" && s.hb != nil && s.hb.firstMapMsg != "" {
		s.res.Class, s.res.Msg, s.res.Sig = ClassMapRace, s.hb.firstMapMsg, s.hb.firstMapSig
	}
	if s.res.Class == "" && s.hb != nil && s.hb.firstMsg != "" && cfg.HBVars {
		s.res.Class, s.res.Msg, s.res.Sig = ClassRace, s.hb.firstMsg, s.hb.firstSig
	}
	r := s.res
	r.Tape = s.out
	r.Hash = s.hash
	r.Probes = s.probes
	r.Decisions = s.nontriv
	r.Tasks = len(s.tasks)
	r.SimTimeNs = s.now
	r.Trace = s.trace
	r.Counters = s.counters
	return r
}

func (s *Sim) newTask(name string, parent *Task) *Task {
	t := &Task{ID: len(s.tasks), Name: name, wake: make(chan struct{}, 1), exited: make(chan struct{}, 1),
		state: stRunnable, weight: 1, lastRun: -1}
	s.tasks = append(s.tasks, t)
	s.live++
	if s.live > s.res.MaxLive {
		s.res.MaxLive = s.live
	}
	if s.hb != nil {
		s.hb.fork(parent, t)
	}
	if !s.cfg.Replay && s.cfg.Policy.Starve && t.ID > 0 {
		switch s.rng.intn(5) {
		case 0:
			t.weight = 0.02
		case 1:
			t.weight = 0.15
		}
	}
	return t
}

func (s *Sim) taskMain(t *Task, f func(), isRoot bool) {
	defer func() {
		r := recover()
		if t.aborted {
			// woken only to be torn down; deferred code of the program under test
			// has already unwound (drop-ins are no-ops while aborting)
			t.state = stDone
			t.exited <- struct{}{}
			return
		}
		// here t holds the baton
		if r != nil && !s.aborting {
			s.res.Class = ClassPanic
			s.res.Msg = fmt.Sprintf("task %d (%s) panicked: %v", t.ID, t.Name, r)
			s.res.Stack = string(debug.Stack())
			s.res.Sig = panicSig(s.res.Stack, fmt.Sprint(r))
			s.aborting = true
		}
		t.state = stDone
		s.live--
		if s.aborting || isRoot {
			s.aborting = true
			s.cur = nil
			s.done <- struct{}{}
			return
		}
		s.ev(t, "exit", 0)
		s.scheduleNext(nil)
	}()
	<-t.wake
	if t.aborted {
		runtime.Goexit()
	}
	f()
}

// panicSig extracts the first frame below the panic that is not in runtime/ or
// simrt as a stable signature for a task panic.
func panicSig(stack, msg string) string {
	lines := strings.Split(stack, "\n")
	seenPanic := false
	for i := 0; i < len(lines); i++ {
		l := lines[i]
		if strings.HasPrefix(l, "panic(") {
			seenPanic = true
			continue
		}
		if !seenPanic || strings.HasPrefix(l, "\t") || l == "" {
			continue
		}
		if strings.HasPrefix(l, "runtime.") || strings.HasPrefix(l, "simrt") || strings.Contains(l, "errorutil.Assert") {
			continue
		}
		if j := strings.LastIndex(l, "("); j > 0 {
			l = l[:j]
		}
		return "panic@" + l
	}
	if len(msg) > 60 {
		msg = msg[:60]
	}
	return "panic:" + msg
}

// ---------------------------------------------------------------------------
// decisions

func (s *Sim) choose(kind int, n int, draw func() int) int {
	if n <= 1 {
		return 0
	}
	var v int
	if s.cfg.Replay {
		if len(s.out) < len(s.in) {
			v = s.in[len(s.out)]
			if v < 0 {
				v = -v
			}
			v %= n
		}
	} else {
		v = draw()
	}
	s.out = append(s.out, v)
	s.nontriv++
	return v
}

func (s *Sim) drawSlice() {
	if s.live < 2 && len(s.timers) == 0 {
		s.slice = 0
		return
	}
	p := s.cfg.Policy
	i := s.choose(KSlice, len(sliceTable), func() int {
		if s.rng.float() < p.NoPreempt {
			return 0
		}
		n := len(sliceTable) - 1
		if s.rng.float() < p.ShortBias {
			return 1 + s.rng.intn(n/2)
		}
		return 1 + s.rng.intn(n)
	})
	s.slice = sliceTable[i]
}

// AfterRelease is called by the drop-ins after a lock has been released: the
// statement boundary right behind a critical section is where atomicity violations
// (check under the lock, act after it) live, so the scheduler may end the slice
// there.  One decision per release (0 = carry on).
func (s *Sim) AfterRelease() {
	if s.live < 2 || s.atomic > 0 {
		return
	}
	p := s.cfg.Policy.AfterUnlock
	if s.choose(KSlice, 2, func() int {
		if s.rng.float() < p {
			return 1
		}
		return 0
	}) == 1 {
		s.slice = 1
	}
}

// Choose is a workload-level decision (fault or not, which command next, ...).
// 0 must be the simplest alternative.
func Choose(n int) int {
	s := active()
	if s == nil {
		return 0
	}
	return s.choose(KWork, n, func() int { return s.rng.intn(n) })
}

// ChooseP returns true with probability p in exploration; false is the simple
// alternative.
func ChooseP(p float64) bool {
	s := active()
	if s == nil {
		return false
	}
	return s.choose(KWork, 2, func() int {
		if s.rng.float() < p {
			return 1
		}
		return 0
	}) == 1
}

// ---------------------------------------------------------------------------
// probes and scheduling

// P is the pre-emption probe the instrumenter inserts before every statement.
func P(site int32) {
	s := cur
	if s == nil || s.aborting {
		return
	}
	s.cur.lastSite = site
	s.tick()
}

// Tick is a probe issued by the drop-in primitives before each operation.
func (s *Sim) Tick() { s.tick() }

// Atomic runs f without offering the baton at probes (harness oracles that take a
// snapshot through instrumented accessors).  Blocking inside f still switches.
func Atomic(f func()) {
	s := active()
	if s == nil {
		f()
		return
	}
	s.atomic++
	defer func() { s.atomic-- }()
	f()
}

func (s *Sim) tick() {
	s.probes++
	if s.atomic > 0 {
		return
	}
	if s.probes > s.max/2 {
		// second half of the budget: remember where the time goes so that a
		// non-termination report names the dominant function, not a random line
		if s.siteCnt == nil {
			s.siteCnt = map[int32]int64{}
		}
		s.siteCnt[s.cur.lastSite]++
		if s.probes > s.max {
			byFunc := map[string]int64{}
			for id, n := range s.siteCnt {
				byFunc[SiteFunc(id)] += n
			}
			best, bestN := "", int64(-1)
			for f, n := range byFunc {
				if n > bestN || (n == bestN && f < best) {
					best, bestN = f, n
				}
			}
			s.failNow(ClassBudget, fmt.Sprintf("probe budget %d exhausted (possible non-termination); most probes of the second half were spent in %s; current task %d (%s) at %s",
				s.max, best, s.cur.ID, s.cur.Name, SiteName(s.cur.lastSite)), "non-termination@"+best)
		}
	}
	if s.slice > 0 {
		s.slice--
		if s.slice == 0 {
			s.preempt()
		}
	}
}

// Yield offers the baton to another runnable task regardless of the slice; used
// by harness polling loops that must not block.
func Yield() {
	s := active()
	if s == nil {
		return
	}
	s.probes++
	if s.probes > s.max {
		s.failNow(ClassBudget, "probe budget exhausted in Yield", "budget@yield")
	}
	t := s.cur
	t.state = stRunnable
	if len(s.timers) > 0 && len(s.runnableOthers(t)) == 0 {
		// a polling task offers the baton and nobody can take it: the only thing
		// that can happen next is that time passes
		s.fireTimer(false)
	}
	s.scheduleNext(t)
}

func (s *Sim) runnableOthers(except *Task) []*Task {
	var c []*Task
	for _, t := range s.tasks {
		if t.state == stRunnable && t != except {
			c = append(c, t)
		}
	}
	// least recently run first: a zero tape is FIFO run-to-block scheduling
	sort.SliceStable(c, func(i, j int) bool { return c[i].lastRun < c[j].lastRun })
	return c
}

func (s *Sim) preempt() {
	t := s.cur
	others := s.runnableOthers(t)
	if len(others) == 0 && len(s.timers) == 0 {
		s.drawSlice()
		return
	}
	s.scheduleNext(t)
}

// scheduleNext picks the next task to run.  keep, if non-nil, is the current
// task which remains runnable (pre-emption point); otherwise the current task
// has blocked or exited.
func (s *Sim) scheduleNext(keep *Task) {
	for {
		cands := s.runnableOthers(keep)
		if keep != nil {
			cands = append([]*Task{keep}, cands...)
		}
		n := len(cands)
		hasTimer := len(s.timers) > 0
		if n == 0 {
			if hasTimer {
				s.fireTimer(false)
				continue
			}
			if s.quiesceW != nil {
				w := s.quiesceW
				s.quiesceW = nil
				w.state = stRunnable
				if s.hb != nil {
					s.hb.joinAll(s, w)
				}
				continue
			}
			s.deadlock()
			return
		}
		total := n
		if hasTimer {
			total++ // pseudo candidate "let time pass": never index 0
		}
		p := s.cfg.Policy
		i := s.choose(KNext, total, func() int {
			if hasTimer && s.rng.float() < p.TimerEager {
				return n
			}
			if keep != nil && s.rng.float() < p.KeepCurrent {
				return 0
			}
			if p.Starve {
				var sum float64
				for _, c := range cands {
					sum += c.weight
				}
				x := s.rng.float() * sum
				for k, c := range cands {
					x -= c.weight
					if x <= 0 {
						return k
					}
				}
				return n - 1
			}
			return s.rng.intn(n)
		})
		if i == n {
			s.fireTimer(true)
			continue
		}
		next := cands[i]
		s.switchTo(next, keep)
		return
	}
}

func (s *Sim) switchTo(next *Task, from *Task) {
	prev := s.cur
	s.step++
	next.lastRun = s.step
	if next == prev {
		s.drawSlice()
		return
	}
	s.res.Switches++
	if from != nil {
		s.res.Preempts++
	}
	s.cur = next
	s.drawSlice()
	if s.cfg.Trace {
		pn := "-"
		if prev != nil {
			pn = fmt.Sprintf("%d(%s)@%s", prev.ID, prev.Name, SiteName(prev.lastSite))
		}
		s.tracef("switch %s -> %d(%s)@%s", pn, next.ID, next.Name, SiteName(next.lastSite))
	}
	next.started = true
	next.wake <- struct{}{}
	if prev != nil && prev.state != stDone {
		s.park(prev)
	}
}

// park blocks the calling task's goroutine until it is handed the baton.
func (s *Sim) park(t *Task) {
	<-t.wake
	if t.aborted {
		runtime.Goexit()
	}
}

// Block parks the current task until another task makes it runnable again via
// MakeRunnable and the scheduler picks it.
func (s *Sim) Block(reason string) {
	t := s.cur
	t.state = stBlocked
	t.blockOn = reason
	s.scheduleNext(nil)
	// when we return we hold the baton again
}

// MakeRunnable marks a blocked task runnable.
func (s *Sim) MakeRunnable(t *Task) {
	if t.state == stBlocked {
		t.state = stRunnable
		t.blockOn = ""
	}
}

// Cur returns the running task.
func (s *Sim) Cur() *Task { return s.cur }

// CurTask returns the running task or nil outside a simulation.
func CurTask() *Task {
	s := active()
	if s == nil {
		return nil
	}
	return s.cur
}

func (s *Sim) deadlock() {
	var rep []string
	for _, t := range s.tasks {
		if t.state == stBlocked {
			rep = append(rep, fmt.Sprintf("task %d (%s) blocked on %s at %s", t.ID, t.Name, t.blockOn, SiteName(t.lastSite)))
		}
	}
	s.res.Blocked = rep
	s.res.Class = ClassDeadlock
	s.res.Msg = "quiescence before completion: no task runnable, no timer pending; " + strings.Join(rep, "; ")
	var sig []string
	for _, t := range s.tasks {
		if t.state == stBlocked {
			sig = append(sig, t.Name+":"+kindOf(t.blockOn))
		}
	}
	sort.Strings(sig)
	s.res.Sig = "deadlock[" + strings.Join(dedup(sig), ",") + "]"
	s.aborting = true
	// the caller is the task that just blocked/exited: end the run from here
	me := s.cur
	s.cur = nil
	s.done <- struct{}{}
	if me != nil && me.state != stDone {
		// park until torn down
		<-me.wake
		runtime.Goexit()
	}
}

func kindOf(b string) string {
	if i := strings.IndexAny(b, "#("); i > 0 {
		return b[:i]
	}
	return b
}

func dedup(a []string) []string {
	var o []string
	for i, x := range a {
		if i == 0 || x != a[i-1] {
			o = append(o, x)
		}
	}
	return o
}

// failNow records a violation and terminates the run from the current task.
func (s *Sim) failNow(class, msg, sig string) {
	if s.aborting {
		runtime.Goexit()
	}
	s.res.Class = class
	s.res.Msg = msg
	s.res.Sig = sig
	s.aborting = true
	// unwinds through taskMain's deferred function, which notifies the controller
	runtime.Goexit()
}

// Fail is called by harness oracles running inside the simulation: it records
// the violation and ends the run immediately.
func Fail(class, sig, format string, args ...interface{}) {
	s := cur
	if s == nil {
		panic("simrt.Fail outside simulation: " + fmt.Sprintf(format, args...))
	}
	s.failNow(class, fmt.Sprintf(format, args...), sig)
}

// Failed reports whether the run is being torn down.
func Failed() bool { return cur == nil || cur.aborting }

// ---------------------------------------------------------------------------
// tasks

// Go starts f as a new task.
func Go(name string, f func()) *Task {
	s := active()
	if s == nil {
		if cur != nil && cur.aborting {
			return nil // run is being torn down: do not start anything
		}
		go f()
		return nil
	}
	t := s.newTask(name, s.cur)
	s.ev(s.cur, "go", t.ID)
	go s.taskMain(t, f, false)
	if s.slice == 0 {
		// a sole task that spawns gets a slice so that the child can pre-empt it
		s.drawSlice()
	}
	return t
}

// GoSite is what the instrumenter rewrites `go f(x)` to.
func GoSite(site int32, f func()) {
	Go("go@"+SiteName(site), f)
}

// WaitQuiescent blocks the calling task until no other task is runnable and no
// timer is pending.  Only one task may wait at a time.
func WaitQuiescent() {
	s := active()
	if s == nil {
		return
	}
	if s.quiesceW != nil {
		panic("simrt: two quiescence waiters")
	}
	s.quiesceW = s.cur
	s.Block("quiescence")
}

// ---------------------------------------------------------------------------
// time

// Now returns the simulated clock in nanoseconds since the simulation epoch.
func (s *Sim) Now() int64 { return s.now }

// Sleep blocks the current task for d nanoseconds of simulated time.
func (s *Sim) Sleep(d int64) {
	s.tick()
	if d <= 0 {
		// time.Sleep(0) returns immediately but is still a scheduling point
		return
	}
	t := s.cur
	s.tseq++
	t.until = s.now + d
	s.timers = append(s.timers, timer{at: t.until, seq: s.tseq, t: t})
	s.ev(t, "sleep", int(d))
	s.Block(fmt.Sprintf("Sleep(until=%d)", t.until))
}

// AfterFunc runs f as a new task after d nanoseconds; the result identifies
// the pending timer for CancelTimer.
func (s *Sim) AfterFunc(d int64, name string, f func()) uint64 {
	if d < 0 {
		d = 0
	}
	s.tseq++
	tm := timer{at: s.now + d, seq: s.tseq, f: f}
	if s.hb != nil && s.cur != nil {
		tm.vc = s.Release(nil)
	}
	s.timers = append(s.timers, tm)
	return s.tseq
}

// CancelTimer removes a pending timer; false if it fired already.
func (s *Sim) CancelTimer(seq uint64) bool {
	for i, tm := range s.timers {
		if tm.seq == seq && tm.f != nil {
			s.timers = append(s.timers[:i], s.timers[i+1:]...)
			return true
		}
	}
	return false
}

func (s *Sim) fireTimer(eager bool) {
	// earliest (at, seq)
	bi := 0
	for i := 1; i < len(s.timers); i++ {
		a, b := s.timers[i], s.timers[bi]
		if a.at < b.at || (a.at == b.at && a.seq < b.seq) {
			bi = i
		}
	}
	tm := s.timers[bi]
	s.timers = append(s.timers[:bi], s.timers[bi+1:]...)
	if tm.at > s.now {
		s.now = tm.at
	}
	s.res.TimerFires++
	if eager {
		s.res.EagerFires++
	}
	if tm.t != nil {
		s.MakeRunnable(tm.t)
	} else if tm.f != nil {
		t := s.newTask("timer", nil)
		if tm.vc != nil {
			t.vc = t.vc.join(tm.vc)
		}
		go s.taskMain(t, tm.f, false)
	}
}

// ---------------------------------------------------------------------------
// trace, hash, counters

// NewObj returns a per-run object id for a primitive on first use.
func (s *Sim) NewObj() int {
	s.objSeq++
	return s.objSeq
}

func (s *Sim) ev(t *Task, kind string, obj int) {
	id := -1
	if t != nil {
		id = t.ID
	}
	h := s.hash
	h = (h ^ uint64(id+1)) * 1099511628211
	for i := 0; i < len(kind); i++ {
		h = (h ^ uint64(kind[i])) * 1099511628211
	}
	h = (h ^ uint64(obj+7)) * 1099511628211
	s.hash = h
	if s.cfg.Trace {
		s.tracef("t%d %s #%d", id, kind, obj)
	}
}

// Ev records a synchronisation event of the current task in the trace hash.
func (s *Sim) Ev(kind string, obj int) { s.ev(s.cur, kind, obj) }

func (s *Sim) tracef(format string, args ...interface{}) {
	max := s.cfg.TraceMax
	if max == 0 {
		max = 4000
	}
	if len(s.trace) < max {
		s.trace = append(s.trace, fmt.Sprintf(format, args...))
	}
}

// Note adds a harness-level line to the trace and hash.
func Note(format string, args ...interface{}) {
	s := active()
	if s == nil {
		return
	}
	if s.cfg.Trace {
		s.tracef("t%d note: "+format, append([]interface{}{s.cur.ID}, args...)...)
	}
}

// Count increments a named counter reported with the result ("this rare
// condition was hit" probes).
func Count(name string) {
	s := cur
	if s == nil {
		return
	}
	s.counters[name]++
}

// Lock table ---------------------------------------------------------------

// NoteLock / NoteUnlock maintain the per-task table of held simulated locks.
func (s *Sim) NoteLock(t *Task, name string) { t.held = append(t.held, name) }

func (s *Sim) NoteUnlock(t *Task, name string) {
	if t == nil {
		return
	}
	for i := len(t.held) - 1; i >= 0; i-- {
		if t.held[i] == name {
			t.held = append(t.held[:i], t.held[i+1:]...)
			return
		}
	}
}

// HeldLocks returns the simulated locks the current task holds.
func HeldLocks() []string {
	s := active()
	if s == nil {
		return nil
	}
	return append([]string(nil), s.cur.held...)
}

// TaskByID returns a task of the current run.
func TaskByID(id int) *Task {
	s := cur
	if s == nil || id < 0 || id >= len(s.tasks) {
		return nil
	}
	return s.tasks[id]
}

// IsBlocked reports whether the task is blocked, and on what.
func (t *Task) IsBlocked() (bool, string) { return t.state == stBlocked, t.blockOn }

// IsDone reports whether the task has finished.
func (t *Task) IsDone() bool { return t.state == stDone }

// Held returns the locks held by t.
func (t *Task) Held() []string { return append([]string(nil), t.held...) }

// NowNs returns the simulated time (0 outside a simulation).
func NowNs() int64 {
	if s := cur; s != nil {
		return s.now
	}
	return 0
}

// Step returns the global step counter (context switches); Seq returns a
// strictly increasing stamp usable for history ordering.
func Seq() int64 {
	s := cur
	if s == nil {
		return 0
	}
	s.step++
	return s.step
}

// ChooseWake picks which of n registered waiters a Signal wakes (0 = oldest).
func (s *Sim) ChooseWake(n int) int {
	if n > 1 {
		s.res.WakeChoice++
	}
	p := s.cfg.Policy
	return s.choose(KWake, n, func() int {
		if s.rng.float() < p.WakeOldest {
			return 0
		}
		return s.rng.intn(n)
	})
}

// RandIntn serves math/rand top-level functions from the tape.
func (s *Sim) RandIntn(n int) int {
	return s.choose(KWork, n, func() int { return s.rng.intn(n) })
}

// OthersQuiescent reports whether no task other than the caller is runnable and
// no timer is pending: if the caller does nothing either, no further step can
// ever happen.
func OthersQuiescent() bool {
	s := active()
	if s == nil {
		return true
	}
	if len(s.timers) > 0 {
		return false
	}
	for _, t := range s.tasks {
		if t != s.cur && t.state == stRunnable {
			return false
		}
	}
	return true
}

// BlockedTasks returns a description of every blocked task.
func BlockedTasks() []string {
	s := cur
	if s == nil {
		return nil
	}
	var out []string
	for _, t := range s.tasks {
		if t.state == stBlocked {
			out = append(out, fmt.Sprintf("task %d (%s) blocked on %s at %s", t.ID, t.Name, t.blockOn, SiteName(t.lastSite)))
		}
	}
	return out
}
