// Package simtime re-exports package time with the clock and the blocking
// functions redirected to the simrt scheduler (discrete-event time).
package simtime

import (
	"time"

	"simrt"
)

// Re-exported types, constants and pure functions.
type (
	Duration   = time.Duration
	Time       = time.Time
	Location   = time.Location
	Month      = time.Month
	Weekday    = time.Weekday
	ParseError = time.ParseError
)

const (
	Nanosecond  = time.Nanosecond
	Microsecond = time.Microsecond
	Millisecond = time.Millisecond
	Second      = time.Second
	Minute      = time.Minute
	Hour        = time.Hour

	RFC3339     = time.RFC3339
	RFC3339Nano = time.RFC3339Nano
	RFC1123     = time.RFC1123
	RFC822      = time.RFC822
	Kitchen     = time.Kitchen
	ANSIC       = time.ANSIC
	UnixDate    = time.UnixDate
	Stamp       = time.Stamp
)

var (
	UTC           = time.UTC
	Local         = time.Local
	Unix          = time.Unix
	Date          = time.Date
	Parse         = time.Parse
	ParseDuration = time.ParseDuration
	LoadLocation  = time.LoadLocation
	FixedZone     = time.FixedZone
)

// epoch of the simulated clock (fixed so that runs replay).
var epoch = time.Date(2020, 1, 1, 0, 0, 0, 0, time.UTC)

// Now returns the simulated time inside a simulation.
func Now() Time {
	if s := simrt.Enter(); s != nil {
		return epoch.Add(time.Duration(s.Now()))
	}
	if simrt.NowNs() != 0 {
		return epoch.Add(time.Duration(simrt.NowNs()))
	}
	return epoch
}

// Since returns the simulated time elapsed since t.
func Since(t Time) Duration { return Now().Sub(t) }

// Until returns the duration until t.
func Until(t Time) Duration { return t.Sub(Now()) }

// Sleep blocks the calling task for d of simulated time.
func Sleep(d Duration) {
	if s := simrt.Enter(); s != nil {
		s.Sleep(int64(d))
	}
}
