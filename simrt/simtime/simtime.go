// Package simtime re-exports package time with the clock and the blocking
// functions redirected to the simrt scheduler (discrete-event time).
package simtime

import (
	"time"

	"simrt"
)

// Re-exported types, constants and pure functions.
type (
	Duration   = time.Duration
	Time       = time.Time
	Location   = time.Location
	Month      = time.Month
	Weekday    = time.Weekday
	ParseError = time.ParseError
)

const (
	Nanosecond  = time.Nanosecond
	Microsecond = time.Microsecond
	Millisecond = time.Millisecond
	Second      = time.Second
	Minute      = time.Minute
	Hour        = time.Hour

	RFC3339     = time.RFC3339
	RFC3339Nano = time.RFC3339Nano
	RFC1123     = time.RFC1123
	RFC822      = time.RFC822
	Kitchen     = time.Kitchen
	ANSIC       = time.ANSIC
	UnixDate    = time.UnixDate
	Stamp       = time.Stamp
)

var (
	UTC           = time.UTC
	Local         = time.Local
	Unix          = time.Unix
	Date          = time.Date
	Parse         = time.Parse
	ParseDuration = time.ParseDuration
	LoadLocation  = time.LoadLocation
	FixedZone     = time.FixedZone
)

// epoch of the simulated clock (fixed so that runs replay).
var epoch = time.Date(2020, 1, 1, 0, 0, 0, 0, time.UTC)

// Now returns the simulated time inside a simulation.
func Now() Time {
	if s := simrt.Enter(); s != nil {
		return epoch.Add(time.Duration(s.Now()))
	}
	if simrt.NowNs() != 0 {
		return epoch.Add(time.Duration(simrt.NowNs()))
	}
	return epoch
}

// Since returns the simulated time elapsed since t.
func Since(t Time) Duration { return Now().Sub(t) }

// Until returns the duration until t.
func Until(t Time) Duration { return t.Sub(Now()) }

// Sleep blocks the calling task for d of simulated time.
func Sleep(d Duration) {
	if s := simrt.Enter(); s != nil {
		s.Sleep(int64(d))
	}
}

// ---------------------------------------------------------------------------
// timers (discrete-event: they fire when the simulated clock reaches them; the
// scheduler may let the clock run ahead of runnable tasks, see Policy.TimerEager)

// Timer is a simulated time.Timer.
type Timer struct {
	C  <-chan Time
	c  chan Time
	f  func()
	id uint64
}

func (t *Timer) start(d Duration) {
	s := simrt.Enter()
	if s == nil {
		return // outside a simulation nothing fires
	}
	t.id = s.AfterFunc(int64(d), "timer", func() {
		t.id = 0
		if t.f != nil {
			t.f()
			return
		}
		simrt.Select(true, simrt.SelSend(t.c, Now()))
	})
}

// NewTimer creates a Timer that sends the current time on its channel after d.
func NewTimer(d Duration) *Timer {
	c := make(chan Time, 1)
	t := &Timer{C: c, c: c}
	t.start(d)
	return t
}

// AfterFunc calls f in its own task after d.
func AfterFunc(d Duration, f func()) *Timer {
	t := &Timer{f: f}
	t.start(d)
	return t
}

// After is NewTimer(d).C.
func After(d Duration) <-chan Time { return NewTimer(d).C }

// Stop prevents the Timer from firing; false if it already fired or was stopped.
func (t *Timer) Stop() bool {
	s := simrt.Enter()
	if s == nil || t.id == 0 {
		return false
	}
	s.Tick()
	ok := s.CancelTimer(t.id)
	t.id = 0
	return ok
}

// Reset changes the timer to expire after d.
func (t *Timer) Reset(d Duration) bool {
	active := t.Stop()
	t.start(d)
	return active
}

// Ticker is a simulated time.Ticker.
type Ticker struct {
	C       <-chan Time
	c       chan Time
	d       Duration
	id      uint64
	stopped bool
}

func (t *Ticker) arm() {
	s := simrt.Enter()
	if s == nil {
		return
	}
	t.id = s.AfterFunc(int64(t.d), "ticker", func() {
		if t.stopped {
			return
		}
		simrt.Select(true, simrt.SelSend(t.c, Now()))
		t.arm()
	})
}

// NewTicker returns a Ticker that ticks every d.
func NewTicker(d Duration) *Ticker {
	if d <= 0 {
		panic("non-positive interval for NewTicker")
	}
	c := make(chan Time, 1)
	t := &Ticker{C: c, c: c, d: d}
	t.arm()
	return t
}

// Tick is NewTicker(d).C.
func Tick(d Duration) <-chan Time { return NewTicker(d).C }

// Stop turns the ticker off.
func (t *Ticker) Stop() {
	t.stopped = true
	if s := simrt.Enter(); s != nil && t.id != 0 {
		s.CancelTimer(t.id)
	}
	t.id = 0
}

// Reset stops the ticker and restarts it with period d.
func (t *Ticker) Reset(d Duration) {
	t.Stop()
	t.stopped, t.d = false, d
	t.arm()
}
