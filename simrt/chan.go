package simrt

import (
	"fmt"
	"reflect"
)

// Simulated channel operations.  The instrumenter rewrites `ch <- v`, `<-ch`,
// `range ch` and `close(ch)` in the instrumented packages to these functions; the
// real channel object only serves as identity (and for its capacity).  Semantics
// are those of Go channels: unbuffered = rendezvous, buffered = FIFO queue,
// receive from a closed empty channel yields (zero, false), send on a closed
// channel panics.  `select` is not modelled (the instrumented packages have none).

type chanWaiter struct {
	t    *Task
	v    interface{}
	ok   bool
	done bool
	vc   VC
}

type simChan struct {
	ref    interface{}
	id     int
	cap    int
	buf    []interface{}
	bufVC  []VC
	closed bool
	sendq  []*chanWaiter
	recvq  []*chanWaiter
	closeV VC
}

func (s *Sim) chanOf(ch interface{}) *simChan {
	v := reflect.ValueOf(ch)
	if v.Kind() != reflect.Chan {
		panic(fmt.Sprintf("simrt: channel operation on %T", ch))
	}
	if s.chans == nil {
		s.chans = map[uintptr]*simChan{}
	}
	p := v.Pointer()
	c := s.chans[p]
	if c == nil {
		c = &simChan{ref: ch, id: s.NewObj(), cap: v.Cap()}
		s.chans[p] = c
	}
	return c
}

// ChanSend is `ch <- v`.
func ChanSend(ch interface{}, v interface{}) {
	s := active()
	if s == nil {
		if cur != nil && cur.aborting {
			return // run is being torn down
		}
		reflect.ValueOf(ch).Send(reflect.ValueOf(v))
		return
	}
	if reflect.ValueOf(ch).IsNil() {
		s.Block("send on nil channel")
		return
	}
	c := s.chanOf(ch)
	s.tick()
	if c.closed {
		panic("send on closed channel")
	}
	var vc VC
	if s.hb != nil {
		vc = s.Release(nil)
	}
	if len(c.recvq) > 0 {
		w := c.recvq[0]
		c.recvq = c.recvq[1:]
		w.v, w.ok, w.done, w.vc = v, true, true, vc
		s.MakeRunnable(w.t)
		s.ev(s.cur, "chsend", c.id)
		return
	}
	if len(c.buf) < c.cap {
		c.buf = append(c.buf, v)
		c.bufVC = append(c.bufVC, vc)
		s.ev(s.cur, "chsend-buf", c.id)
		return
	}
	w := &chanWaiter{t: s.cur, v: v, vc: vc}
	c.sendq = append(c.sendq, w)
	s.ev(s.cur, "chsend-block", c.id)
	for !w.done {
		s.Block(fmt.Sprintf("chan#%d send", c.id))
	}
	if !w.ok {
		panic("send on closed channel")
	}
}

// ChanRecv is `v, ok := <-ch`.
func ChanRecv(ch interface{}) (interface{}, bool) {
	s := active()
	if s == nil {
		if cur != nil && cur.aborting {
			return nil, false
		}
		v, ok := reflect.ValueOf(ch).Recv()
		if !ok {
			return nil, false
		}
		return v.Interface(), true
	}
	if reflect.ValueOf(ch).IsNil() {
		s.Block("receive from nil channel")
		return nil, false
	}
	c := s.chanOf(ch)
	s.tick()
	if len(c.buf) > 0 {
		v := c.buf[0]
		s.Acquire(c.bufVC[0])
		c.buf, c.bufVC = c.buf[1:], c.bufVC[1:]
		// a blocked sender moves into the buffer
		if len(c.sendq) > 0 {
			w := c.sendq[0]
			c.sendq = c.sendq[1:]
			c.buf = append(c.buf, w.v)
			c.bufVC = append(c.bufVC, w.vc)
			w.ok, w.done = true, true
			s.MakeRunnable(w.t)
		}
		s.ev(s.cur, "chrecv-buf", c.id)
		return v, true
	}
	if len(c.sendq) > 0 {
		w := c.sendq[0]
		c.sendq = c.sendq[1:]
		w.ok, w.done = true, true
		s.Acquire(w.vc)
		s.MakeRunnable(w.t)
		s.ev(s.cur, "chrecv", c.id)
		return w.v, true
	}
	if c.closed {
		s.Acquire(c.closeV)
		s.ev(s.cur, "chrecv-closed", c.id)
		return nil, false
	}
	w := &chanWaiter{t: s.cur}
	c.recvq = append(c.recvq, w)
	s.ev(s.cur, "chrecv-block", c.id)
	for !w.done {
		s.Block(fmt.Sprintf("chan#%d receive", c.id))
	}
	s.Acquire(w.vc)
	return w.v, w.ok
}

// ChanClose is `close(ch)`.
func ChanClose(ch interface{}) {
	s := active()
	if s == nil {
		if cur != nil && cur.aborting {
			return
		}
		reflect.ValueOf(ch).Close()
		return
	}
	c := s.chanOf(ch)
	s.tick()
	if c.closed {
		panic("close of closed channel")
	}
	c.closed = true
	if s.hb != nil {
		c.closeV = s.Release(nil)
	}
	for _, w := range c.recvq {
		w.v, w.ok, w.done, w.vc = nil, false, true, c.closeV
		s.MakeRunnable(w.t)
	}
	c.recvq = nil
	for _, w := range c.sendq {
		w.ok, w.done = false, true
		s.MakeRunnable(w.t)
	}
	c.sendq = nil
	s.ev(s.cur, "chclose", c.id)
}
