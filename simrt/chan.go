package simrt

import (
	"fmt"
	"reflect"
)

// Simulated channel operations.  The instrumenter rewrites `ch <- v`, `<-ch`,
// `range ch` and `close(ch)` in the instrumented packages to these functions; the
// real channel object only serves as identity (and for its capacity).  Semantics
// are those of Go channels: unbuffered = rendezvous, buffered = FIFO queue,
// receive from a closed empty channel yields (zero, false), send on a closed
// channel panics.  `select` statements are rewritten to Select (below): among the
// cases that can proceed the simulator chooses; without one the task waits on all
// of its channels at once.

type chanWaiter struct {
	t    *Task
	v    interface{}
	ok   bool
	done bool
	vc   VC
	sel  *selGroup // waiter belongs to a blocked select
	idx  int       // its case index
}

// selGroup ties the waiters of one blocked select together: the first
// counterpart that completes one of them wins, the others are void.
type selGroup struct {
	done bool
	won  *chanWaiter
}

func hasLive(q []*chanWaiter) bool {
	for _, w := range q {
		if w.sel == nil || !w.sel.done {
			return true
		}
	}
	return false
}

// popLive removes and returns the first waiter that is still waiting.
func popLive(q *[]*chanWaiter) *chanWaiter {
	for len(*q) > 0 {
		w := (*q)[0]
		*q = (*q)[1:]
		if w.sel != nil {
			if w.sel.done {
				continue
			}
			w.sel.done, w.sel.won = true, w
		}
		return w
	}
	return nil
}

type simChan struct {
	ref    interface{}
	id     int
	cap    int
	buf    []interface{}
	bufVC  []VC
	closed bool
	sendq  []*chanWaiter
	recvq  []*chanWaiter
	closeV VC
}

func (s *Sim) chanOf(ch interface{}) *simChan {
	v := reflect.ValueOf(ch)
	if v.Kind() != reflect.Chan {
		panic(fmt.Sprintf("simrt: channel operation on %T", ch))
	}
	if s.chans == nil {
		s.chans = map[uintptr]*simChan{}
	}
	p := v.Pointer()
	c := s.chans[p]
	if c == nil {
		c = &simChan{ref: ch, id: s.NewObj(), cap: v.Cap()}
		s.chans[p] = c
	}
	return c
}

// ChanSend is `ch <- v`.
func ChanSend(ch interface{}, v interface{}) {
	s := active()
	if s == nil {
		if cur != nil && cur.aborting {
			return // run is being torn down
		}
		reflect.ValueOf(ch).Send(reflect.ValueOf(v))
		return
	}
	if reflect.ValueOf(ch).IsNil() {
		s.Block("send on nil channel")
		return
	}
	c := s.chanOf(ch)
	s.tick()
	if c.closed {
		panic("send on closed channel")
	}
	var vc VC
	if s.hb != nil {
		vc = s.Release(nil)
	}
	if s.trySend(c, v, vc) {
		return
	}
	w := &chanWaiter{t: s.cur, v: v, vc: vc}
	c.sendq = append(c.sendq, w)
	s.ev(s.cur, "chsend-block", c.id)
	for !w.done {
		s.Block(fmt.Sprintf("chan#%d send", c.id))
	}
	if !w.ok {
		panic("send on closed channel")
	}
}

// trySend completes a send that can proceed without blocking.
func (s *Sim) trySend(c *simChan, v interface{}, vc VC) bool {
	if w := popLive(&c.recvq); w != nil {
		w.v, w.ok, w.done, w.vc = v, true, true, vc
		s.MakeRunnable(w.t)
		s.ev(s.cur, "chsend", c.id)
		return true
	}
	if len(c.buf) < c.cap {
		c.buf = append(c.buf, v)
		c.bufVC = append(c.bufVC, vc)
		s.ev(s.cur, "chsend-buf", c.id)
		return true
	}
	return false
}

// tryRecv completes a receive that can proceed without blocking.
func (s *Sim) tryRecv(c *simChan) (v interface{}, ok bool, done bool) {
	if len(c.buf) > 0 {
		v := c.buf[0]
		s.Acquire(c.bufVC[0])
		c.buf, c.bufVC = c.buf[1:], c.bufVC[1:]
		// a blocked sender moves into the buffer
		if w := popLive(&c.sendq); w != nil {
			c.buf = append(c.buf, w.v)
			c.bufVC = append(c.bufVC, w.vc)
			w.ok, w.done = true, true
			s.MakeRunnable(w.t)
		}
		s.ev(s.cur, "chrecv-buf", c.id)
		return v, true, true
	}
	if w := popLive(&c.sendq); w != nil {
		w.ok, w.done = true, true
		s.Acquire(w.vc)
		s.MakeRunnable(w.t)
		s.ev(s.cur, "chrecv", c.id)
		return w.v, true, true
	}
	if c.closed {
		s.Acquire(c.closeV)
		s.ev(s.cur, "chrecv-closed", c.id)
		return nil, false, true
	}
	return nil, false, false
}

// ChanRecv is `v, ok := <-ch`.
func ChanRecv(ch interface{}) (interface{}, bool) {
	s := active()
	if s == nil {
		if cur != nil && cur.aborting {
			return nil, false
		}
		v, ok := reflect.ValueOf(ch).Recv()
		if !ok {
			return nil, false
		}
		return v.Interface(), true
	}
	if reflect.ValueOf(ch).IsNil() {
		s.Block("receive from nil channel")
		return nil, false
	}
	c := s.chanOf(ch)
	s.tick()
	if v, ok, done := s.tryRecv(c); done {
		return v, ok
	}
	w := &chanWaiter{t: s.cur}
	c.recvq = append(c.recvq, w)
	s.ev(s.cur, "chrecv-block", c.id)
	for !w.done {
		s.Block(fmt.Sprintf("chan#%d receive", c.id))
	}
	s.Acquire(w.vc)
	return w.v, w.ok
}

// ChanClose is `close(ch)`.
func ChanClose(ch interface{}) {
	s := active()
	if s == nil {
		if cur != nil && cur.aborting {
			return
		}
		reflect.ValueOf(ch).Close()
		return
	}
	c := s.chanOf(ch)
	s.tick()
	if c.closed {
		panic("close of closed channel")
	}
	c.closed = true
	if s.hb != nil {
		c.closeV = s.Release(nil)
	}
	for w := popLive(&c.recvq); w != nil; w = popLive(&c.recvq) {
		w.v, w.ok, w.done, w.vc = nil, false, true, c.closeV
		s.MakeRunnable(w.t)
	}
	c.recvq = nil
	for w := popLive(&c.sendq); w != nil; w = popLive(&c.sendq) {
		w.ok, w.done = false, true
		s.MakeRunnable(w.t)
	}
	c.sendq = nil
	s.ev(s.cur, "chclose", c.id)
}

// ---------------------------------------------------------------------------
// select

// SelCase is one communication clause of a select statement.
type SelCase struct {
	Send bool
	Ch   interface{}
	Val  interface{}
}

// SelSend is `case ch <- v:`.
func SelSend(ch interface{}, v interface{}) SelCase { return SelCase{Send: true, Ch: ch, Val: v} }

// SelRecv is `case [x[, ok] :=] <-ch:`.
func SelRecv(ch interface{}) SelCase { return SelCase{Ch: ch} }

// Select is the select statement: it returns the index of the clause that
// proceeded (-1: default) and, for a receive, the value and the ok flag.
func Select(hasDefault bool, cases ...SelCase) (int, interface{}, bool) {
	s := active()
	if s == nil {
		if cur != nil && cur.aborting {
			return -1, nil, false
		}
		return realSelect(hasDefault, cases)
	}
	s.tick()
	chans := make([]*simChan, len(cases))
	var ready []int
	for i, cs := range cases {
		if cs.Ch == nil || reflect.ValueOf(cs.Ch).IsNil() {
			continue
		}
		c := s.chanOf(cs.Ch)
		chans[i] = c
		if cs.Send {
			if c.closed || hasLive(c.recvq) || len(c.buf) < c.cap {
				ready = append(ready, i)
			}
		} else if len(c.buf) > 0 || hasLive(c.sendq) || c.closed {
			ready = append(ready, i)
		}
	}
	if len(ready) > 0 {
		i := ready[0]
		if len(ready) > 1 {
			i = ready[s.ChooseWake(len(ready))]
		}
		c := chans[i]
		if cases[i].Send {
			if c.closed {
				panic("send on closed channel")
			}
			var vc VC
			if s.hb != nil {
				vc = s.Release(nil)
			}
			s.trySend(c, cases[i].Val, vc)
			return i, nil, false
		}
		v, ok, _ := s.tryRecv(c)
		return i, v, ok
	}
	if hasDefault {
		s.ev(s.cur, "select-default", 0)
		return -1, nil, false
	}
	grp := &selGroup{}
	n := 0
	for i, cs := range cases {
		c := chans[i]
		if c == nil {
			continue
		}
		n++
		w := &chanWaiter{t: s.cur, sel: grp, idx: i}
		if cs.Send {
			w.v = cs.Val
			if s.hb != nil {
				w.vc = s.Release(nil)
			}
			c.sendq = append(c.sendq, w)
		} else {
			c.recvq = append(c.recvq, w)
		}
	}
	s.ev(s.cur, "select-block", n)
	for !grp.done {
		s.Block(fmt.Sprintf("select(%d cases)", n))
	}
	// the void waiters leave their queues
	for i, cs := range cases {
		c := chans[i]
		if c == nil {
			continue
		}
		q := &c.recvq
		if cs.Send {
			q = &c.sendq
		}
		k := 0
		for _, w := range *q {
			if w.sel != grp {
				(*q)[k] = w
				k++
			}
		}
		*q = (*q)[:k]
	}
	w := grp.won
	if cases[w.idx].Send {
		if !w.ok {
			panic("send on closed channel")
		}
		return w.idx, nil, false
	}
	s.Acquire(w.vc)
	return w.idx, w.v, w.ok
}

func realSelect(hasDefault bool, cases []SelCase) (int, interface{}, bool) {
	var rc []reflect.SelectCase
	for _, cs := range cases {
		if cs.Send {
			rc = append(rc, reflect.SelectCase{Dir: reflect.SelectSend, Chan: reflect.ValueOf(cs.Ch), Send: reflect.ValueOf(cs.Val)})
		} else {
			rc = append(rc, reflect.SelectCase{Dir: reflect.SelectRecv, Chan: reflect.ValueOf(cs.Ch)})
		}
	}
	if hasDefault {
		rc = append(rc, reflect.SelectCase{Dir: reflect.SelectDefault})
	}
	i, v, ok := reflect.Select(rc)
	if hasDefault && i == len(rc)-1 {
		return -1, nil, false
	}
	if !cases[i].Send && ok {
		return i, v.Interface(), true
	}
	return i, nil, false
}
