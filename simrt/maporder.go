package simrt

import (
	"fmt"
	"reflect"
	"sort"
)

// MapKeys returns a snapshot of the keys of map m in an order that is a pure
// function of the run: sorted by a canonical rendering of the key, permuted by a
// per-run salt taken from the decision tape (salt 0 = plain sorted order).  Go
// leaves map iteration order unspecified, so every order returned is legal.
//
// Pointer keys are rendered through an ID() uint64 method when they have one,
// otherwise by first-seen sequence within the run; keys that cannot be told
// apart deterministically are counted in the "nondeterministic_ties" counter.
func MapKeys(m interface{}) []interface{} {
	v := reflect.ValueOf(m)
	if v.Kind() != reflect.Map || v.Len() == 0 {
		return nil
	}
	keys := v.MapKeys()
	out := make([]interface{}, len(keys))
	if len(keys) == 1 {
		out[0] = keys[0].Interface()
		return out
	}
	s := active()
	var salt uint64
	if s != nil {
		if !s.saltSet {
			s.saltSet = true
			s.mapSalt = uint64(s.choose(KMapSalt, 6, func() int { return s.rng.intn(6) }))
		}
		salt = s.mapSalt
	}
	type ent struct {
		k   interface{}
		num bool
		n   float64
		c   string
		h   uint64
	}
	ents := make([]ent, len(keys))
	if s != nil {
		s.ptrFresh = 0
	}
	for i, kv := range keys {
		e := ent{k: kv.Interface()}
		e.num, e.n, e.c = canon(s, kv)
		if salt != 0 {
			h := uint64(14695981039346656037) ^ salt*0x9E3779B97F4A7C15
			for j := 0; j < len(e.c); j++ {
				h = (h ^ uint64(e.c[j])) * 1099511628211
			}
			h ^= h >> 31
			e.h = h
		}
		ents[i] = e
	}
	if s != nil && s.ptrFresh >= 2 {
		Count("nondeterministic_ties")
	}
	sort.SliceStable(ents, func(i, j int) bool {
		a, b := ents[i], ents[j]
		if salt != 0 && a.h != b.h {
			return a.h < b.h
		}
		if a.num && b.num && a.n != b.n {
			return a.n < b.n
		}
		return a.c < b.c
	})
	for i := 1; i < len(ents); i++ {
		if ents[i].c == ents[i-1].c {
			Count("nondeterministic_ties")
		}
	}
	for i, e := range ents {
		out[i] = e.k
	}
	return out
}

func canon(s *Sim, kv reflect.Value) (bool, float64, string) {
	for kv.Kind() == reflect.Interface {
		if kv.IsNil() {
			return false, 0, "<nil>"
		}
		kv = kv.Elem()
	}
	switch kv.Kind() {
	case reflect.Int, reflect.Int8, reflect.Int16, reflect.Int32, reflect.Int64:
		return true, float64(kv.Int()), fmt.Sprintf("i:%020d", kv.Int())
	case reflect.Uint, reflect.Uint8, reflect.Uint16, reflect.Uint32, reflect.Uint64, reflect.Uintptr:
		return true, float64(kv.Uint()), fmt.Sprintf("u:%020d", kv.Uint())
	case reflect.Float32, reflect.Float64:
		return true, kv.Float(), fmt.Sprintf("f:%v", kv.Float())
	case reflect.String:
		return false, 0, "s:" + kv.String()
	case reflect.Bool:
		return false, 0, fmt.Sprintf("b:%v", kv.Bool())
	case reflect.Ptr, reflect.UnsafePointer, reflect.Chan, reflect.Func:
		if kv.Kind() == reflect.Ptr && kv.IsNil() {
			return false, 0, "p:" + kv.Type().String() + ":nil"
		}
		if s != nil && kv.CanInterface() && s.noted != nil {
			// insertion order recorded by the instrumented map store: independent of
			// any id the program under test computes
			if n, ok := s.noted[kv.Interface()]; ok {
				return false, 0, fmt.Sprintf("p:%s:ins%010d", kv.Type().String(), n)
			}
		}
		if kv.CanInterface() {
			if id, ok := kv.Interface().(interface{ ID() uint64 }); ok {
				return false, 0, fmt.Sprintf("p:%s:%020d", kv.Type().String(), id.ID())
			}
		}
		if s != nil && kv.CanInterface() {
			if s.ptrSeq == nil {
				s.ptrSeq = map[interface{}]int{}
			}
			k := kv.Interface()
			n, ok := s.ptrSeq[k]
			if !ok {
				n = len(s.ptrSeq) + 1
				s.ptrSeq[k] = n
				// two pointers first seen in the same MapKeys call cannot be
				// ordered deterministically
				s.ptrFresh++
			}
			return false, 0, fmt.Sprintf("p:%s:seq%08d", kv.Type().String(), n)
		}
		return false, 0, "p:" + kv.Type().String()
	default:
		return false, 0, fmt.Sprintf("%s:%v", kv.Type().String(), kv.Interface())
	}
}

// NoteKey is inserted by the instrumenter before a store into a map whose key type
// is a pointer or an interface: the key gets the next insertion sequence number of
// the run, which orders such keys in MapKeys deterministically.
func NoteKey(k interface{}) {
	s := cur
	if s == nil || s.aborting || k == nil {
		return
	}
	switch reflect.ValueOf(k).Kind() {
	case reflect.Ptr, reflect.UnsafePointer, reflect.Chan, reflect.Func:
	default:
		return
	}
	if s.noted == nil {
		s.noted = map[interface{}]int{}
	}
	if _, ok := s.noted[k]; !ok {
		s.noted[k] = len(s.noted) + 1
	}
}
