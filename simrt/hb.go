package simrt

import (
	"fmt"
	"reflect"
	"sort"
)

// Happens-before monitor.  The simulator implements every synchronisation
// primitive, so it can keep exact vector clocks per task.  Access probes on
// package-level variables are checked FastTrack-style: two accesses to the same
// variable, at least one a write, neither ordered before the other => hb-race.

// VC is a vector clock (index = task id).
type VC []uint32

func (a VC) leq(b VC) bool {
	for i, x := range a {
		if x == 0 {
			continue
		}
		if i >= len(b) || x > b[i] {
			return false
		}
	}
	return true
}

func (a VC) join(b VC) VC {
	if len(b) > len(a) {
		a = append(a, make(VC, len(b)-len(a))...)
	}
	for i, x := range b {
		if x > a[i] {
			a[i] = x
		}
	}
	return a
}

func (a VC) clone() VC { return append(VC(nil), a...) }

type accessRec struct {
	task  int
	clock uint32
	site  int32
}

type varState struct {
	name   string
	write  accessRec
	hasW   bool
	reads  []accessRec
	atomic bool
	keep   interface{}
}

type hbState struct {
	vars        map[interface{}]*varState
	races       map[string]bool
	firstMsg    string
	firstSig    string
	atomics     map[interface{}]VC
	firstMapMsg string
	firstMapSig string
}

func newHB() *hbState {
	return &hbState{vars: map[interface{}]*varState{}, races: map[string]bool{}}
}

func (h *hbState) fork(parent, child *Task) {
	if parent != nil {
		child.vc = parent.vc.clone()
		tickVC(parent)
	}
	for len(child.vc) <= child.ID {
		child.vc = append(child.vc, 0)
	}
	child.vc[child.ID] = 1
}

func tickVC(t *Task) {
	for len(t.vc) <= t.ID {
		t.vc = append(t.vc, 0)
	}
	t.vc[t.ID]++
}

func (h *hbState) joinAll(s *Sim, w *Task) {
	for _, t := range s.tasks {
		if t != w {
			w.vc = w.vc.join(t.vc)
		}
	}
}

// Release returns the clock to store in a synchronisation object when the
// current task performs a release operation (nil when HB is off).
func (s *Sim) Release(prev VC) VC {
	if s.hb == nil {
		return nil
	}
	t := s.cur
	v := prev.join(t.vc)
	tickVC(t)
	return v
}

// ReleaseReplace is Release for objects whose previous clock is superseded
// (mutex unlock: the unlocker had acquired it).
func (s *Sim) ReleaseReplace() VC {
	if s.hb == nil {
		return nil
	}
	t := s.cur
	v := t.vc.clone()
	tickVC(t)
	return v
}

// Acquire joins the object's clock into the current task.
func (s *Sim) Acquire(v VC) {
	if s.hb == nil || v == nil {
		return
	}
	s.cur.vc = s.cur.vc.join(v)
}

// AcquireTask joins the object's clock into task t (used when a primitive grants
// the object to a blocked task).
func (s *Sim) AcquireTask(t *Task, v VC) {
	if s.hb == nil || v == nil {
		return
	}
	t.vc = t.vc.join(v)
}

// HBOn reports whether the happens-before monitor is active.
func (s *Sim) HBOn() bool { return s.hb != nil }

// Access is the probe the instrumenter inserts for package-level variables.
func Access(p interface{}, write bool, name string) {
	s := cur
	if s == nil || s.aborting || s.hb == nil {
		return
	}
	h := s.hb
	t := s.cur
	for len(t.vc) <= t.ID {
		t.vc = append(t.vc, 0)
	}
	if t.vc[t.ID] == 0 {
		t.vc[t.ID] = 1
	}
	vs := h.vars[p]
	if vs == nil {
		vs = &varState{name: name}
		h.vars[p] = vs
	}
	me := accessRec{t.ID, t.vc[t.ID], t.lastSite}
	ordered := func(a accessRec) bool {
		return a.task == t.ID || (a.task < len(t.vc) && a.clock <= t.vc[a.task])
	}
	report := func(a accessRec, kind string) {
		key := fmt.Sprintf("%s|%s|%s", name, SiteName(a.site), SiteName(me.site))
		if h.races[key] {
			return
		}
		h.races[key] = true
		s.counters["hb_races"]++
		if h.firstMsg != "" {
			return
		}
		// recorded, reported when the run ends without a behavioural violation
		// (so that the consequence of the race, if any, is seen by the oracles)
		h.firstSig = "hb-race:" + name
		h.firstMsg = fmt.Sprintf("unordered %s on package-level variable %s: task %d at %s vs task %d (%s) at %s",
			kind, name, a.task, SiteName(a.site), t.ID, t.Name, SiteName(me.site))
	}
	if vs.hasW && !ordered(vs.write) {
		if write {
			report(vs.write, "write/write")
		} else {
			report(vs.write, "write/read")
		}
	}
	if write {
		for _, r := range vs.reads {
			if !ordered(r) {
				report(r, "read/write")
			}
		}
		vs.write = me
		vs.hasW = true
		vs.reads = vs.reads[:0]
	} else {
		for i, r := range vs.reads {
			if r.task == t.ID {
				vs.reads[i] = me
				return
			}
		}
		vs.reads = append(vs.reads, me)
	}
	s.counters["hb_accesses"]++
}

// AtomicSync gives an atomic operation on address p its happens-before effect:
// every atomic operation first acquires the clock left at p by earlier atomic
// writes; operations that write (store, add, swap, cas) also release into it.  It
// is also a scheduling point.
func AtomicSync(p interface{}, acquire, release bool) {
	s := cur
	if s == nil || s.aborting {
		return
	}
	s.tick()
	if s.hb == nil {
		return
	}
	h := s.hb
	if h.atomics == nil {
		h.atomics = map[interface{}]VC{}
	}
	if acquire {
		s.Acquire(h.atomics[p])
	}
	if release {
		h.atomics[p] = s.Release(h.atomics[p])
	}
}

// ClassMapRace: an unordered pair of accesses to one map object of which at least
// one is a write.  In a real process this is the Go runtime's unrecoverable "fatal
// error: concurrent map read and map write" / "concurrent map writes" (whenever the
// two accesses overlap), hence a crash of the host, not a benign race.
const ClassMapRace = "map-race"

type mapKey struct{ p uintptr }

// MapAccess is the probe the instrumenter inserts before a statement that reads
// (index, range) or writes (store, delete) a map, whatever the map hangs off
// (package-level variable, struct field, local).
func MapAccess(m interface{}, write bool, site int32) {
	s := cur
	if s == nil || s.aborting || s.hb == nil || m == nil {
		return
	}
	v := reflect.ValueOf(m)
	if v.Kind() != reflect.Map || v.IsNil() {
		return
	}
	h := s.hb
	t := s.cur
	for len(t.vc) <= t.ID {
		t.vc = append(t.vc, 0)
	}
	if t.vc[t.ID] == 0 {
		t.vc[t.ID] = 1
	}
	k := mapKey{v.Pointer()}
	vs := h.vars[k]
	if vs == nil {
		vs = &varState{name: v.Type().String(), keep: m} // keep the map alive: its address identifies it
		h.vars[k] = vs
	}
	me := accessRec{t.ID, t.vc[t.ID], site}
	ordered := func(a accessRec) bool {
		return a.task == t.ID || (a.task < len(t.vc) && a.clock <= t.vc[a.task])
	}
	report := func(a accessRec, kind string) {
		s.counters["map_races"]++
		if h.firstMapMsg != "" {
			return
		}
		x, y := SiteFunc(a.site), SiteFunc(me.site)
		if y < x {
			x, y = y, x
		}
		h.firstMapSig = "map-race@" + x + "|" + y
		h.firstMapMsg = fmt.Sprintf("unordered %s on one %s: task %d at %s vs task %d (%s) at %s - in a real process: fatal error: concurrent map access",
			kind, vs.name, a.task, SiteName(a.site), t.ID, t.Name, SiteName(me.site))
	}
	if vs.hasW && !ordered(vs.write) {
		if write {
			report(vs.write, "map write / map write")
		} else {
			report(vs.write, "map write / map read")
		}
	}
	if write {
		for _, r := range vs.reads {
			if !ordered(r) {
				report(r, "map read / map write")
			}
		}
		vs.write, vs.hasW = me, true
		vs.reads = vs.reads[:0]
	} else {
		for i, r := range vs.reads {
			if r.task == t.ID {
				vs.reads[i] = me
				return
			}
		}
		vs.reads = append(vs.reads, me)
	}
	s.counters["map_accesses"]++
}

// MapDeepRead is the probe the instrumenter inserts before a statement that hands
// a value to an encoder of the standard library (json.Marshal, fmt.Sprintf in
// package scope): the encoder reads, by reflection and outside instrumented code,
// every map reachable from the value, so each of them is recorded as read at this
// point of the calling task.  The walk is bounded (depth 6, 256 containers).
func MapDeepRead(v interface{}, site int32) {
	s := cur
	if s == nil || s.aborting || s.hb == nil || v == nil {
		return
	}
	budget := 256
	seen := map[uintptr]bool{}
	var walk func(x reflect.Value, depth int)
	walk = func(x reflect.Value, depth int) {
		if depth > 6 || budget <= 0 || !x.IsValid() {
			return
		}
		switch x.Kind() {
		case reflect.Interface:
			if !x.IsNil() {
				walk(x.Elem(), depth)
			}
		case reflect.Ptr:
			if !x.IsNil() && !seen[x.Pointer()] {
				seen[x.Pointer()] = true
				if x.Elem().Kind() == reflect.Map || x.Elem().Kind() == reflect.Slice || x.Elem().Kind() == reflect.Interface {
					walk(x.Elem(), depth+1)
				}
			}
		case reflect.Map:
			if x.IsNil() || seen[x.Pointer()] || !x.CanInterface() {
				return
			}
			seen[x.Pointer()] = true
			budget--
			MapAccess(x.Interface(), false, site)
			s.counters["map_deep_reads"]++
			ek := x.Type().Elem().Kind()
			if ek != reflect.Interface && ek != reflect.Map && ek != reflect.Slice && ek != reflect.Ptr {
				return
			}
			// (visited in an order that is a function of the keys, not of Go's random
			// iteration: which of several races is reported first must replay)
			keys := x.MapKeys()
			names := make([]string, len(keys))
			for i, k := range keys {
				if k.CanInterface() {
					names[i] = fmt.Sprintf("%T|%v", k.Interface(), k.Interface())
				}
			}
			idx := make([]int, len(keys))
			for i := range idx {
				idx[i] = i
			}
			sort.SliceStable(idx, func(a, b int) bool { return names[idx[a]] < names[idx[b]] })
			for _, i := range idx {
				walk(x.MapIndex(keys[i]), depth+1)
			}
		case reflect.Slice:
			if x.IsNil() {
				return
			}
			ek := x.Type().Elem().Kind()
			if ek != reflect.Interface && ek != reflect.Map && ek != reflect.Slice && ek != reflect.Ptr {
				return
			}
			budget--
			for i := 0; i < x.Len() && i < 64; i++ {
				walk(x.Index(i), depth+1)
			}
		}
	}
	walk(reflect.ValueOf(v), 0)
}
