// Command instrument rewrites a scratch copy of krotik/ecal in place so that it
// runs under the simrt scheduler (DESIGN.md §3.1):
//
//   - imports of sync, time and math/rand are redirected to the simrt drop-ins;
//   - `go f(x)` becomes a simulator task spawn;
//   - a pre-emption probe simrt.P(site) is inserted before every statement;
//   - `range` over maps iterates in a deterministic, per-run salted order;
//   - reads/writes of package-level variables get simrt.Access probes.
//
// Usage: instrument -dir <scratch copy> -simrt <path of simrt module> -sites <out.json>
package main

import (
	"bytes"
	"encoding/json"
	"flag"
	"fmt"
	"go/ast"
	"go/format"
	"go/token"
	"go/types"
	"os"
	"path/filepath"
	"sort"
	"strconv"
	"strings"

	"golang.org/x/tools/go/ast/astutil"
	"golang.org/x/tools/go/packages"
)

var instrumentedPkgs = []string{
	"engine", "engine/pool", "engine/pubsub", "interpreter", "scope", "parser", "util", "stdlib", "config", "cli/tool",
}

// files that stay untouched: stdlib_gen.go is a generated table of Go standard
// library bindings.  (parser/lexer.go is instrumented too: the lexer goroutine is a
// managed task and its token channel a simulated channel, see rewriteChannels.)
var excludedFiles = map[string]bool{
	"stdlib/stdlib_gen.go": true,
}

const modPath = "github.com/krotik/ecal"

type inst struct {
	fset     *token.FileSet
	pkg      *packages.Package
	info     *types.Info
	file     *ast.File
	relFile  string
	sites    *[]string
	instPkgs map[string]bool
	imports  map[string]string // package path -> local name in this file
	needImp  map[string]string // extra imports to add: path -> name
	tmpN     int
	stats    *stats
	loopBody map[*ast.BlockStmt]bool
	swBody   map[*ast.BlockStmt]bool
	funcOf   map[ast.Node]string
	curFunc  string
}

type stats struct {
	Files, Probes, GoStmts, MapRanges, MapRangesSkipped, AccessProbes, ImportSwaps, ChanOps, ChanOpsSkipped, StateVars, NoteKeys, MapProbes, Selects, DeepReadProbes int
	Skipped                                                                                                                                                          []string
}

func main() {
	dir := flag.String("dir", "", "scratch copy of the repository (rewritten in place)")
	simrtDir := flag.String("simrt", "", "path of the simrt module")
	sitesOut := flag.String("sites", "", "where to write the probe site table")
	flag.Parse()
	if *dir == "" || *simrtDir == "" {
		fmt.Fprintln(os.Stderr, "usage: instrument -dir D -simrt S [-sites F]")
		os.Exit(2)
	}
	var patterns []string
	for _, p := range instrumentedPkgs {
		patterns = append(patterns, "./"+p)
	}
	cfg := &packages.Config{Mode: packages.NeedName | packages.NeedFiles | packages.NeedCompiledGoFiles |
		packages.NeedImports | packages.NeedDeps | packages.NeedTypes | packages.NeedSyntax | packages.NeedTypesInfo,
		Dir: *dir}
	pkgs, err := packages.Load(cfg, patterns...)
	if err != nil {
		fmt.Fprintln(os.Stderr, "instrument: load:", err)
		os.Exit(2)
	}
	bad := false
	for _, p := range pkgs {
		for _, e := range p.Errors {
			fmt.Fprintln(os.Stderr, "instrument: package error:", e)
			bad = true
		}
	}
	if bad {
		os.Exit(2)
	}
	instPkgs := map[string]bool{}
	for _, p := range instrumentedPkgs {
		instPkgs[modPath+"/"+p] = true
	}
	var sites []string
	sites = append(sites, "?")
	st := &stats{}
	sort.Slice(pkgs, func(i, j int) bool { return pkgs[i].PkgPath < pkgs[j].PkgPath })
	for _, p := range pkgs {
		for i, f := range p.Syntax {
			path := p.CompiledGoFiles[i]
			rel, _ := filepath.Rel(*dir, path)
			rel = filepath.ToSlash(rel)
			if excludedFiles[rel] || strings.HasSuffix(rel, "_test.go") {
				st.Skipped = append(st.Skipped, rel)
				continue
			}
			in := &inst{fset: p.Fset, pkg: p, info: p.TypesInfo, file: f, relFile: rel, sites: &sites,
				instPkgs: instPkgs, stats: st, needImp: map[string]string{},
				loopBody: map[*ast.BlockStmt]bool{}, swBody: map[*ast.BlockStmt]bool{}}
			in.run()
			var buf bytes.Buffer
			f.Comments = nil
			stripDocs(f)
			if err := format.Node(&buf, p.Fset, f); err != nil {
				fmt.Fprintln(os.Stderr, "instrument: print", rel, err)
				os.Exit(2)
			}
			if err := os.WriteFile(path, buf.Bytes(), 0644); err != nil {
				fmt.Fprintln(os.Stderr, "instrument:", err)
				os.Exit(2)
			}
			st.Files++
		}
	}
	// one generated file per package registers every package-level variable with the
	// simulator (snapshot at the first run, restore before every later run)
	for _, p := range pkgs {
		var names []string
		sc := p.Types.Scope()
		for _, n := range sc.Names() {
			if v, ok := sc.Lookup(n).(*types.Var); ok && n != "_" {
				names = append(names, v.Name())
			}
		}
		if len(names) == 0 || len(p.CompiledGoFiles) == 0 {
			continue
		}
		sort.Strings(names)
		var b bytes.Buffer
		fmt.Fprintf(&b, "package %s\n\nimport \"simrt\"\n\nfunc init() {\n", p.Types.Name())
		for _, n := range names {
			fmt.Fprintf(&b, "\tsimrt.RegisterVar(%q, &%s)\n", p.Types.Name()+"."+n, n)
			st.StateVars++
		}
		b.WriteString("}\n")
		dirOf := filepath.Dir(p.CompiledGoFiles[0])
		if err := os.WriteFile(filepath.Join(dirOf, "verif_state.go"), b.Bytes(), 0644); err != nil {
			fmt.Fprintln(os.Stderr, "instrument:", err)
			os.Exit(2)
		}
	}
	// go.mod of the copy: require the simrt module
	gm := filepath.Join(*dir, "go.mod")
	b, err := os.ReadFile(gm)
	if err != nil {
		fmt.Fprintln(os.Stderr, "instrument:", err)
		os.Exit(2)
	}
	abs, _ := filepath.Abs(*simrtDir)
	b = append(b, []byte(fmt.Sprintf("\nrequire simrt v0.0.0\n\nreplace simrt => %s\n", abs))...)
	if err := os.WriteFile(gm, b, 0644); err != nil {
		fmt.Fprintln(os.Stderr, "instrument:", err)
		os.Exit(2)
	}
	if *sitesOut != "" {
		jb, _ := json.Marshal(sites)
		if err := os.WriteFile(*sitesOut, jb, 0644); err != nil {
			fmt.Fprintln(os.Stderr, "instrument:", err)
			os.Exit(2)
		}
	}
	sb, _ := json.Marshal(st)
	fmt.Println(string(sb))
}

func stripDocs(f *ast.File) {
	f.Doc = nil
	ast.Inspect(f, func(n ast.Node) bool {
		switch x := n.(type) {
		case *ast.FuncDecl:
			x.Doc = nil
		case *ast.GenDecl:
			x.Doc = nil
		case *ast.Field:
			x.Doc = nil
			x.Comment = nil
		case *ast.ValueSpec:
			x.Doc = nil
			x.Comment = nil
		case *ast.TypeSpec:
			x.Doc = nil
			x.Comment = nil
		case *ast.ImportSpec:
			x.Doc = nil
			x.Comment = nil
		}
		return true
	})
}

// ---------------------------------------------------------------------------

func (in *inst) run() {
	// local import names
	in.imports = map[string]string{}
	for _, is := range in.file.Imports {
		p, _ := strconv.Unquote(is.Path.Value)
		name := ""
		if is.Name != nil {
			name = is.Name.Name
		} else if ip := in.pkg.Imports[p]; ip != nil {
			name = ip.Name
		} else {
			name = filepath.Base(p)
		}
		in.imports[p] = name
	}

	// collect statement lists
	type listNode struct {
		n ast.Node
	}
	var lists []ast.Node
	in.funcOf = map[ast.Node]string{}
	for _, d := range in.file.Decls {
		name := ""
		if fd, ok := d.(*ast.FuncDecl); ok {
			name = fd.Name.Name
			if fd.Recv != nil && len(fd.Recv.List) > 0 {
				name = types.ExprString(fd.Recv.List[0].Type) + "." + name
			}
		}
		ast.Inspect(d, func(n ast.Node) bool {
			switch n.(type) {
			case *ast.BlockStmt, *ast.CaseClause, *ast.CommClause:
				in.funcOf[n] = name
			}
			return true
		})
	}
	ast.Inspect(in.file, func(n ast.Node) bool {
		switch x := n.(type) {
		case *ast.BlockStmt:
			lists = append(lists, x)
		case *ast.CaseClause:
			lists = append(lists, x)
		case *ast.CommClause:
			lists = append(lists, x)
		case *ast.ForStmt:
			in.loopBody[x.Body] = true
		case *ast.RangeStmt:
			in.loopBody[x.Body] = true
		case *ast.SwitchStmt:
			in.swBody[x.Body] = true
		case *ast.TypeSwitchStmt:
			in.swBody[x.Body] = true
		case *ast.SelectStmt:
			in.swBody[x.Body] = true
		}
		return true
	})
	for _, n := range lists {
		in.curFunc = in.funcOf[n]
		switch x := n.(type) {
		case *ast.BlockStmt:
			if in.swBody[x] {
				continue // contains only clauses
			}
			x.List = in.list(x.List, in.loopBody[x], x.Pos())
		case *ast.CaseClause:
			x.Body = in.list(x.Body, false, x.Pos())
		case *ast.CommClause:
			x.Body = in.list(x.Body, false, x.Pos())
		}
	}
	in.rewriteSelects()
	in.rewriteChannels()
	in.swapImports()
}

// rewriteSelects turns every select statement into a call of simrt.Select
// followed by a switch over the index of the clause that proceeded:
//
//	{
//		_vsi, _vsv, _vsok := simrt.Select(hasDefault, simrt.SelSend(ch, v), simrt.SelRecv(ch2), ...)
//		_, _ = _vsv, _vsok
//		switch _vsi {
//		case 0: body
//		case 1: var _vz T; if _vsv != nil { _vz = _vsv.(T) }; x, ok := _vz, _vsok; body
//		case -1: default body
//		}
//	}
//
// Channel and value expressions are evaluated once, in source order, as in Go.
func (in *inst) rewriteSelects() {
	build := func(sl *ast.SelectStmt, label *ast.Ident) ast.Stmt {
		in.stats.Selects++
		iv, vv, okv := in.tmp("si"), in.tmp("sv"), in.tmp("sok")
		args := []ast.Expr{ast.NewIdent("false")}
		sw := &ast.SwitchStmt{Tag: ast.NewIdent(iv), Body: &ast.BlockStmt{}}
		n := 0
		for _, cl := range sl.Body.List {
			cc := cl.(*ast.CommClause)
			if cc.Comm == nil {
				args[0] = ast.NewIdent("true")
				sw.Body.List = append(sw.Body.List, &ast.CaseClause{List: []ast.Expr{&ast.BasicLit{Kind: token.INT, Value: "-1"}}, Body: cc.Body})
				continue
			}
			var pre []ast.Stmt
			recv := func(u ast.Expr, lhs []ast.Expr, tok token.Token) {
				ue := u.(*ast.UnaryExpr)
				for {
					if p, ok := ue.X.(*ast.ParenExpr); ok {
						ue.X = p.X
						continue
					}
					break
				}
				args = append(args, &ast.CallExpr{Fun: sel("simrt", "SelRecv"), Args: []ast.Expr{ue.X}})
				if len(lhs) == 0 {
					return
				}
				var t ast.Expr
				if tv, ok := in.info.Types[ue.X]; ok && tv.Type != nil {
					if ct, ok := tv.Type.Underlying().(*types.Chan); ok {
						if name, ok := in.typeName(ct.Elem()); ok {
							t, _ = parseExpr(name)
						}
					}
				}
				if t == nil {
					fmt.Fprintf(os.Stderr, "instrument: %s: select receives a value whose type cannot be named here\n", in.fset.Position(sl.Pos()))
					os.Exit(1)
				}
				zv := in.tmp("sz")
				pre = append(pre,
					&ast.DeclStmt{Decl: &ast.GenDecl{Tok: token.VAR, Specs: []ast.Spec{&ast.ValueSpec{Names: []*ast.Ident{ast.NewIdent(zv)}, Type: t}}}},
					&ast.IfStmt{Cond: &ast.BinaryExpr{X: ast.NewIdent(vv), Op: token.NEQ, Y: ast.NewIdent("nil")},
						Body: &ast.BlockStmt{List: []ast.Stmt{&ast.AssignStmt{Lhs: []ast.Expr{ast.NewIdent(zv)}, Tok: token.ASSIGN,
							Rhs: []ast.Expr{&ast.TypeAssertExpr{X: ast.NewIdent(vv), Type: t}}}}}})
				rhs := []ast.Expr{ast.NewIdent(zv)}
				if len(lhs) == 2 {
					rhs = append(rhs, ast.NewIdent(okv))
				}
				pre = append(pre, &ast.AssignStmt{Lhs: lhs, Tok: tok, Rhs: rhs})
			}
			switch c := cc.Comm.(type) {
			case *ast.SendStmt:
				args = append(args, &ast.CallExpr{Fun: sel("simrt", "SelSend"), Args: []ast.Expr{c.Chan, c.Value}})
			case *ast.ExprStmt:
				x := c.X
				for {
					if p, ok := x.(*ast.ParenExpr); ok {
						x = p.X
						continue
					}
					break
				}
				recv(x, nil, token.ILLEGAL)
			case *ast.AssignStmt:
				x := c.Rhs[0]
				for {
					if p, ok := x.(*ast.ParenExpr); ok {
						x = p.X
						continue
					}
					break
				}
				recv(x, c.Lhs, c.Tok)
			}
			sw.Body.List = append(sw.Body.List, &ast.CaseClause{List: []ast.Expr{&ast.BasicLit{Kind: token.INT, Value: strconv.Itoa(n)}},
				Body: append(pre, cc.Body...)})
			n++
		}
		var swStmt ast.Stmt = sw
		if label != nil {
			swStmt = &ast.LabeledStmt{Label: label, Stmt: sw}
		}
		return &ast.BlockStmt{List: []ast.Stmt{
			&ast.AssignStmt{Lhs: []ast.Expr{ast.NewIdent(iv), ast.NewIdent(vv), ast.NewIdent(okv)}, Tok: token.DEFINE,
				Rhs: []ast.Expr{&ast.CallExpr{Fun: sel("simrt", "Select"), Args: args}}},
			&ast.AssignStmt{Lhs: []ast.Expr{ast.NewIdent("_"), ast.NewIdent("_")}, Tok: token.ASSIGN, Rhs: []ast.Expr{ast.NewIdent(vv), ast.NewIdent(okv)}},
			swStmt,
		}}
	}
	astutil.Apply(in.file, nil, func(c *astutil.Cursor) bool {
		switch x := c.Node().(type) {
		case *ast.SelectStmt:
			if _, labelled := c.Parent().(*ast.LabeledStmt); !labelled {
				c.Replace(build(x, nil))
			}
		case *ast.LabeledStmt:
			if sl, ok := x.Stmt.(*ast.SelectStmt); ok {
				c.Replace(build(sl, x.Label))
			}
		}
		return true
	})
}

// rewriteChannels redirects channel operations to the simulator: `ch <- v`,
// `<-ch` (one and two value form), `for x := range ch` and `close(ch)`.
func (in *inst) rewriteChannels() {
	chanElem := func(e ast.Expr) (types.Type, bool) {
		tv, ok := in.info.Types[e]
		if !ok || tv.Type == nil {
			return nil, false
		}
		ct, ok := tv.Type.Underlying().(*types.Chan)
		if !ok {
			return nil, false
		}
		return ct.Elem(), true
	}
	typeExpr := func(t types.Type) ast.Expr {
		name, ok := in.typeName(t)
		if !ok {
			return nil
		}
		e, err := parseExpr(name)
		if err != nil {
			return nil
		}
		return e
	}
	// recvClosure builds func() (T, bool) { x, ok := simrt.ChanRecv(ch); if x == nil { var z T; return z, ok }; return x.(T), ok }
	recvClosure := func(ch ast.Expr, t ast.Expr, two bool) ast.Expr {
		results := []*ast.Field{{Type: t}}
		retZero := []ast.Expr{ast.NewIdent("_vz")}
		retVal := []ast.Expr{&ast.TypeAssertExpr{X: ast.NewIdent("_vx"), Type: t}}
		if two {
			results = append(results, &ast.Field{Type: ast.NewIdent("bool")})
			retZero = append(retZero, ast.NewIdent("_vok"))
			retVal = append(retVal, ast.NewIdent("_vok"))
		}
		body := []ast.Stmt{
			&ast.AssignStmt{Lhs: []ast.Expr{ast.NewIdent("_vx"), ast.NewIdent("_vok")}, Tok: token.DEFINE,
				Rhs: []ast.Expr{&ast.CallExpr{Fun: sel("simrt", "ChanRecv"), Args: []ast.Expr{ch}}}},
			&ast.AssignStmt{Lhs: []ast.Expr{ast.NewIdent("_")}, Tok: token.ASSIGN, Rhs: []ast.Expr{ast.NewIdent("_vok")}},
			&ast.IfStmt{Cond: &ast.BinaryExpr{X: ast.NewIdent("_vx"), Op: token.EQL, Y: ast.NewIdent("nil")},
				Body: &ast.BlockStmt{List: []ast.Stmt{
					&ast.DeclStmt{Decl: &ast.GenDecl{Tok: token.VAR, Specs: []ast.Spec{&ast.ValueSpec{Names: []*ast.Ident{ast.NewIdent("_vz")}, Type: t}}}},
					&ast.ReturnStmt{Results: retZero}}}},
			&ast.ReturnStmt{Results: retVal},
		}
		return &ast.CallExpr{Fun: &ast.FuncLit{Type: &ast.FuncType{Params: &ast.FieldList{}, Results: &ast.FieldList{List: results}},
			Body: &ast.BlockStmt{List: body}}}
	}
	twoValueRecv := map[*ast.UnaryExpr]bool{}
	ast.Inspect(in.file, func(n ast.Node) bool {
		switch x := n.(type) {
		case *ast.AssignStmt:
			if len(x.Lhs) == 2 && len(x.Rhs) == 1 {
				if u, ok := x.Rhs[0].(*ast.UnaryExpr); ok && u.Op == token.ARROW {
					twoValueRecv[u] = true
				}
			}
		case *ast.ValueSpec:
			if len(x.Names) == 2 && len(x.Values) == 1 {
				if u, ok := x.Values[0].(*ast.UnaryExpr); ok && u.Op == token.ARROW {
					twoValueRecv[u] = true
				}
			}
		}
		return true
	})
	astutil.Apply(in.file, nil, func(c *astutil.Cursor) bool {
		switch x := c.Node().(type) {
		case *ast.SendStmt:
			if _, ok := chanElem(x.Chan); ok {
				in.stats.ChanOps++
				c.Replace(&ast.ExprStmt{X: &ast.CallExpr{Fun: sel("simrt", "ChanSend"), Args: []ast.Expr{x.Chan, x.Value}}})
			}
		case *ast.UnaryExpr:
			if x.Op == token.ARROW {
				if et, ok := chanElem(x.X); ok {
					if t := typeExpr(et); t != nil {
						in.stats.ChanOps++
						c.Replace(recvClosure(x.X, t, twoValueRecv[x]))
					} else {
						in.stats.ChanOpsSkipped++
					}
				}
			}
		case *ast.CallExpr:
			if id, ok := x.Fun.(*ast.Ident); ok && id.Name == "close" && len(x.Args) == 1 {
				if _, isB := in.info.Uses[id].(*types.Builtin); isB {
					if _, ok := chanElem(x.Args[0]); ok {
						in.stats.ChanOps++
						x.Fun = sel("simrt", "ChanClose")
					}
				}
			}
		case *ast.RangeStmt:
			et, ok := chanElem(x.X)
			if !ok {
				return true
			}
			t := typeExpr(et)
			if _, labelled := c.Parent().(*ast.LabeledStmt); labelled || t == nil {
				in.stats.ChanOpsSkipped++
				return true
			}
			in.stats.ChanOps++
			cv := in.tmp("c")
			xv, okv := in.tmp("x"), in.tmp("ok")
			head := []ast.Stmt{
				&ast.AssignStmt{Lhs: []ast.Expr{ast.NewIdent(xv), ast.NewIdent(okv)}, Tok: token.DEFINE, Rhs: []ast.Expr{recvClosure(ast.NewIdent(cv), t, true)}},
				&ast.AssignStmt{Lhs: []ast.Expr{ast.NewIdent("_")}, Tok: token.ASSIGN, Rhs: []ast.Expr{ast.NewIdent(xv)}},
				&ast.IfStmt{Cond: &ast.UnaryExpr{Op: token.NOT, X: ast.NewIdent(okv)}, Body: &ast.BlockStmt{List: []ast.Stmt{&ast.BranchStmt{Tok: token.BREAK}}}},
			}
			if x.Key != nil {
				if id, isID := x.Key.(*ast.Ident); !isID || id.Name != "_" {
					head = append(head, &ast.AssignStmt{Lhs: []ast.Expr{x.Key}, Tok: x.Tok, Rhs: []ast.Expr{ast.NewIdent(xv)}})
					if x.Tok == token.DEFINE {
						head = append(head, &ast.AssignStmt{Lhs: []ast.Expr{ast.NewIdent("_")}, Tok: token.ASSIGN, Rhs: []ast.Expr{x.Key}})
					}
				}
			}
			loop := &ast.ForStmt{Body: &ast.BlockStmt{List: append(head, x.Body)}}
			c.Replace(&ast.BlockStmt{List: []ast.Stmt{
				&ast.AssignStmt{Lhs: []ast.Expr{ast.NewIdent(cv)}, Tok: token.DEFINE, Rhs: []ast.Expr{x.X}},
				loop}})
		}
		return true
	})
}

func (in *inst) site(pos token.Pos) int {
	p := in.fset.Position(pos)
	*in.sites = append(*in.sites, fmt.Sprintf("%s:%d %s", in.relFile, p.Line, in.curFunc))
	return len(*in.sites) - 1
}

func (in *inst) probe(pos token.Pos) ast.Stmt {
	in.stats.Probes++
	return &ast.ExprStmt{X: &ast.CallExpr{
		Fun:  &ast.SelectorExpr{X: ast.NewIdent("simrt"), Sel: ast.NewIdent("P")},
		Args: []ast.Expr{&ast.BasicLit{Kind: token.INT, Value: strconv.Itoa(in.site(pos))}},
	}}
}

func (in *inst) list(list []ast.Stmt, force bool, pos token.Pos) []ast.Stmt {
	var out []ast.Stmt
	if len(list) == 0 {
		if force {
			out = append(out, in.probe(pos))
		}
		return out
	}
	for _, s := range list {
		out = append(out, in.probe(s.Pos()))
		out = append(out, in.noteKeys(s)...)
		out = append(out, in.mapProbes(s)...)
		out = append(out, in.accessProbes(s)...)
		out = append(out, in.rewriteStmt(s))
	}
	return out
}

// noteKeys: before `m[k] = v` with a pointer- or interface-typed key, tell the
// simulator about the key so that map iteration order does not depend on addresses
// or on ids computed by the program.
func (in *inst) noteKeys(s ast.Stmt) []ast.Stmt {
	as, ok := s.(*ast.AssignStmt)
	if !ok {
		return nil
	}
	var out []ast.Stmt
	for _, l := range as.Lhs {
		ix, ok := l.(*ast.IndexExpr)
		if !ok {
			continue
		}
		tv, ok := in.info.Types[ix.X]
		if !ok {
			continue
		}
		mt, ok := tv.Type.Underlying().(*types.Map)
		if !ok {
			continue
		}
		switch mt.Key().Underlying().(type) {
		case *types.Pointer, *types.Interface, *types.Chan, *types.Signature:
		default:
			continue
		}
		if !sideEffectFree(ix.Index) {
			continue
		}
		in.stats.NoteKeys++
		out = append(out, &ast.ExprStmt{X: &ast.CallExpr{Fun: sel("simrt", "NoteKey"), Args: []ast.Expr{ix.Index}}})
	}
	return out
}

// mapProbes: simrt.MapAccess(m, write, site) for every map the statement indexes,
// stores into, deletes from or ranges over (not descending into nested statement
// lists and function literals, which are handled on their own).
func (in *inst) mapProbes(s ast.Stmt) []ast.Stmt {
	type acc struct {
		m     ast.Expr
		write bool
	}
	var accs []acc
	isMap := func(e ast.Expr) bool {
		tv, ok := in.info.Types[e]
		if !ok || tv.Type == nil {
			return false
		}
		_, ok = tv.Type.Underlying().(*types.Map)
		return ok
	}
	writes := map[*ast.IndexExpr]bool{}
	var deep []ast.Expr
	var visit func(n ast.Node) bool
	visit = func(n ast.Node) bool {
		switch x := n.(type) {
		case nil:
			return false
		case *ast.FuncLit:
			return false
		case *ast.BlockStmt:
			if n == ast.Node(s) {
				return false
			}
			return in.swBody[x]
		case *ast.CaseClause:
			for _, e := range x.List {
				ast.Inspect(e, visit)
			}
			return false
		case *ast.CommClause:
			return false
		case *ast.AssignStmt:
			for _, l := range x.Lhs {
				if ix, ok := l.(*ast.IndexExpr); ok && isMap(ix.X) {
					writes[ix] = true
				}
			}
		case *ast.IncDecStmt:
			if ix, ok := x.X.(*ast.IndexExpr); ok && isMap(ix.X) {
				writes[ix] = true
			}
		case *ast.RangeStmt:
			if isMap(x.X) && sideEffectFree(x.X) {
				accs = append(accs, acc{x.X, false})
			}
			// the body is a nested list; key/value/X are visited below
		case *ast.CallExpr:
			if id, ok := x.Fun.(*ast.Ident); ok && id.Name == "delete" && len(x.Args) == 2 {
				if _, isB := in.info.Uses[id].(*types.Builtin); isB && isMap(x.Args[0]) && sideEffectFree(x.Args[0]) {
					accs = append(accs, acc{x.Args[0], true})
				}
			}
			if in.encoderCall(x) {
				for _, a := range x.Args {
					if _, lit := a.(*ast.BasicLit); !lit && sideEffectFree(a) && in.mayHoldMaps(a) && !in.declaredIn(a, s) {
						deep = append(deep, a)
					}
				}
			}
		case *ast.IndexExpr:
			if isMap(x.X) && sideEffectFree(x.X) {
				accs = append(accs, acc{x.X, writes[x]})
			}
		}
		return true
	}
	switch x := s.(type) {
	case *ast.BlockStmt:
		return nil
	case *ast.LabeledStmt:
		ast.Inspect(x.Stmt, visit)
	default:
		ast.Inspect(s, visit)
	}
	if len(accs) == 0 && len(deep) == 0 {
		return nil
	}
	var out []ast.Stmt
	for _, a := range deep {
		in.stats.DeepReadProbes++
		out = append(out, &ast.ExprStmt{X: &ast.CallExpr{Fun: sel("simrt", "MapDeepRead"), Args: []ast.Expr{
			cloneExpr(a), &ast.BasicLit{Kind: token.INT, Value: strconv.Itoa(in.site(s.Pos()))}}}})
	}
	seen := map[string]int{}
	for _, a := range accs {
		key := types.ExprString(a.m)
		if i, ok := seen[key]; ok {
			if a.write {
				// upgrade the earlier probe of the same map to a write
				out[i].(*ast.ExprStmt).X.(*ast.CallExpr).Args[1] = ast.NewIdent("true")
			}
			continue
		}
		seen[key] = len(out)
		w := "false"
		if a.write {
			w = "true"
		}
		in.stats.MapProbes++
		out = append(out, &ast.ExprStmt{X: &ast.CallExpr{Fun: sel("simrt", "MapAccess"), Args: []ast.Expr{
			cloneExpr(a.m), ast.NewIdent(w), &ast.BasicLit{Kind: token.INT, Value: strconv.Itoa(in.site(s.Pos()))}}}})
	}
	return out
}

// encoderCall: json.Marshal / json.MarshalIndent anywhere, fmt.Sprintf / fmt.Sprint in
// package scope (the standard library then reads, by reflection, every map reachable
// from the arguments - outside instrumented code).
func (in *inst) encoderCall(c *ast.CallExpr) bool {
	se, ok := c.Fun.(*ast.SelectorExpr)
	if !ok {
		return false
	}
	id, ok := se.X.(*ast.Ident)
	if !ok {
		return false
	}
	pn, ok := in.info.Uses[id].(*types.PkgName)
	if !ok {
		return false
	}
	switch pn.Imported().Path() {
	case "encoding/json":
		return se.Sel.Name == "Marshal" || se.Sel.Name == "MarshalIndent"
	case "fmt":
		return in.pkg.Name == "scope" && (se.Sel.Name == "Sprintf" || se.Sel.Name == "Sprint")
	}
	return false
}

// mayHoldMaps: the static type of e is an interface, a map, a slice or a pointer.
func (in *inst) mayHoldMaps(e ast.Expr) bool {
	tv, ok := in.info.Types[e]
	if !ok || tv.Type == nil {
		return false
	}
	switch tv.Type.Underlying().(type) {
	case *types.Interface, *types.Map, *types.Slice, *types.Pointer:
		return true
	}
	return false
}

// declaredIn: e mentions an identifier that statement s itself declares (if/switch/for
// init): a probe placed before s could not name it.
func (in *inst) declaredIn(e ast.Expr, s ast.Stmt) bool {
	found := false
	ast.Inspect(e, func(n ast.Node) bool {
		if id, ok := n.(*ast.Ident); ok {
			if o := in.info.Uses[id]; o != nil && o.Pos() >= s.Pos() && o.Pos() < s.End() {
				found = true
			}
		}
		return true
	})
	return found
}

func cloneExpr(e ast.Expr) ast.Expr {
	switch x := e.(type) {
	case *ast.Ident:
		return ast.NewIdent(x.Name)
	case *ast.SelectorExpr:
		return &ast.SelectorExpr{X: cloneExpr(x.X), Sel: ast.NewIdent(x.Sel.Name)}
	case *ast.ParenExpr:
		return &ast.ParenExpr{X: cloneExpr(x.X)}
	case *ast.StarExpr:
		return &ast.StarExpr{X: cloneExpr(x.X)}
	}
	return e
}

func sideEffectFree(e ast.Expr) bool {
	switch x := e.(type) {
	case *ast.Ident, *ast.BasicLit:
		return true
	case *ast.SelectorExpr:
		return sideEffectFree(x.X)
	case *ast.ParenExpr:
		return sideEffectFree(x.X)
	case *ast.StarExpr:
		return sideEffectFree(x.X)
	}
	return false
}

func (in *inst) tmp(prefix string) string {
	in.tmpN++
	return fmt.Sprintf("_v%s%d", prefix, in.tmpN)
}

// rewriteStmt handles `go` statements and map ranges (possibly labelled).
func (in *inst) rewriteStmt(s ast.Stmt) ast.Stmt {
	switch x := s.(type) {
	case *ast.GoStmt:
		return in.rewriteGo(x)
	case *ast.RangeStmt:
		if r := in.rewriteMapRange(x, nil); r != nil {
			return r
		}
	case *ast.LabeledStmt:
		if rs, ok := x.Stmt.(*ast.RangeStmt); ok {
			if r := in.rewriteMapRange(rs, x); r != nil {
				return r
			}
		}
		if gs, ok := x.Stmt.(*ast.GoStmt); ok {
			x.Stmt = in.rewriteGo(gs)
		}
	}
	return s
}

func sel(pkg, name string) ast.Expr {
	return &ast.SelectorExpr{X: ast.NewIdent(pkg), Sel: ast.NewIdent(name)}
}

func (in *inst) rewriteGo(g *ast.GoStmt) ast.Stmt {
	in.stats.GoStmts++
	call := g.Call
	var pre []ast.Stmt
	fun := call.Fun
	if _, isLit := fun.(*ast.FuncLit); !isLit {
		name := in.tmp("f")
		pre = append(pre, &ast.AssignStmt{Lhs: []ast.Expr{ast.NewIdent(name)}, Tok: token.DEFINE, Rhs: []ast.Expr{fun}})
		fun = ast.NewIdent(name)
	}
	var args []ast.Expr
	for _, a := range call.Args {
		if tv, ok := in.info.Types[a]; ok && tv.Value != nil {
			args = append(args, a) // constant: keep inline (untyped constants)
			continue
		}
		name := in.tmp("a")
		pre = append(pre, &ast.AssignStmt{Lhs: []ast.Expr{ast.NewIdent(name)}, Tok: token.DEFINE, Rhs: []ast.Expr{a}})
		args = append(args, ast.NewIdent(name))
	}
	var body ast.Expr
	if lit, isLit := fun.(*ast.FuncLit); isLit && len(args) == 0 {
		body = lit
	} else {
		inner := &ast.CallExpr{Fun: fun, Args: args, Ellipsis: call.Ellipsis}
		if call.Ellipsis == token.NoPos {
			inner.Ellipsis = token.NoPos
		}
		body = &ast.FuncLit{Type: &ast.FuncType{Params: &ast.FieldList{}},
			Body: &ast.BlockStmt{List: []ast.Stmt{&ast.ExprStmt{X: inner}}}}
	}
	spawn := &ast.ExprStmt{X: &ast.CallExpr{Fun: sel("simrt", "GoSite"),
		Args: []ast.Expr{&ast.BasicLit{Kind: token.INT, Value: strconv.Itoa(in.site(g.Pos()))}, body}}}
	if len(pre) == 0 {
		return spawn
	}
	return &ast.BlockStmt{List: append(pre, spawn)}
}

// typeName renders t in the context of the current file; ok=false if it cannot
// be named there.
func (in *inst) typeName(t types.Type) (string, bool) {
	ok := true
	s := types.TypeString(t, func(p *types.Package) string {
		if p == in.pkg.Types {
			return ""
		}
		if n, have := in.imports[p.Path()]; have && n != "_" && n != "." {
			return n
		}
		if n, have := in.needImp[p.Path()]; have {
			return n
		}
		n := fmt.Sprintf("_vimp%d", len(in.needImp))
		in.needImp[p.Path()] = n
		return n
	})
	// unexported names of other packages cannot be written
	if named, isNamed := t.(*types.Named); isNamed {
		if o := named.Obj(); o.Pkg() != nil && o.Pkg() != in.pkg.Types && !o.Exported() {
			ok = false
		}
	}
	return s, ok
}

func (in *inst) rewriteMapRange(r *ast.RangeStmt, label *ast.LabeledStmt) ast.Stmt {
	tv, ok := in.info.Types[r.X]
	if !ok {
		return nil
	}
	mt, isMap := tv.Type.Underlying().(*types.Map)
	if !isMap {
		return nil
	}
	kname, nameable := in.typeName(mt.Key())
	if !nameable {
		in.stats.MapRangesSkipped++
		return nil
	}
	in.stats.MapRanges++
	mv := in.tmp("m")
	kv := in.tmp("k")
	isBlank := func(e ast.Expr) bool {
		if e == nil {
			return true
		}
		id, ok := e.(*ast.Ident)
		return ok && id.Name == "_"
	}
	keyExpr, err := parseExpr(kname)
	if err != nil {
		in.stats.MapRangesSkipped++
		in.stats.MapRanges--
		return nil
	}
	var head []ast.Stmt
	// typed key
	tk := in.tmp("tk")
	head = append(head, &ast.AssignStmt{Lhs: []ast.Expr{ast.NewIdent(tk)}, Tok: token.DEFINE,
		Rhs: []ast.Expr{&ast.TypeAssertExpr{X: ast.NewIdent(kv), Type: keyExpr}}})
	// presence check (entries deleted during the iteration are not produced)
	tval := in.tmp("tv")
	okv := in.tmp("ok")
	head = append(head, &ast.AssignStmt{Lhs: []ast.Expr{ast.NewIdent(tval), ast.NewIdent(okv)}, Tok: token.DEFINE,
		Rhs: []ast.Expr{&ast.IndexExpr{X: ast.NewIdent(mv), Index: ast.NewIdent(tk)}}})
	head = append(head, &ast.IfStmt{Cond: &ast.UnaryExpr{Op: token.NOT, X: ast.NewIdent(okv)},
		Body: &ast.BlockStmt{List: []ast.Stmt{&ast.BranchStmt{Tok: token.CONTINUE}}}})
	head = append(head, &ast.AssignStmt{Lhs: []ast.Expr{ast.NewIdent("_")}, Tok: token.ASSIGN, Rhs: []ast.Expr{ast.NewIdent(tval)}})
	tok := r.Tok
	if !isBlank(r.Key) {
		head = append(head, &ast.AssignStmt{Lhs: []ast.Expr{r.Key}, Tok: tok, Rhs: []ast.Expr{ast.NewIdent(tk)}})
		if tok == token.DEFINE {
			head = append(head, &ast.AssignStmt{Lhs: []ast.Expr{ast.NewIdent("_")}, Tok: token.ASSIGN, Rhs: []ast.Expr{r.Key}})
		}
	}
	if !isBlank(r.Value) {
		head = append(head, &ast.AssignStmt{Lhs: []ast.Expr{r.Value}, Tok: tok, Rhs: []ast.Expr{ast.NewIdent(tval)}})
		if tok == token.DEFINE {
			head = append(head, &ast.AssignStmt{Lhs: []ast.Expr{ast.NewIdent("_")}, Tok: token.ASSIGN, Rhs: []ast.Expr{r.Value}})
		}
	}
	// the body block keeps its identity (its list is instrumented separately)
	body := &ast.BlockStmt{List: append(head, r.Body)}
	loop := &ast.RangeStmt{Key: ast.NewIdent("_"), Value: ast.NewIdent(kv), Tok: token.DEFINE,
		X:    &ast.CallExpr{Fun: sel("simrt", "MapKeys"), Args: []ast.Expr{ast.NewIdent(mv)}},
		Body: body}
	var loopStmt ast.Stmt = loop
	if label != nil {
		label.Stmt = loop
		loopStmt = label
	}
	return &ast.BlockStmt{List: []ast.Stmt{
		&ast.AssignStmt{Lhs: []ast.Expr{ast.NewIdent(mv)}, Tok: token.DEFINE, Rhs: []ast.Expr{r.X}},
		loopStmt,
	}}
}

func parseExpr(s string) (ast.Expr, error) {
	return parserParseExpr(s)
}

// ---------------------------------------------------------------------------
// access probes on package-level variables

type access struct {
	v     *types.Var
	expr  ast.Expr // expression denoting the variable (ident or pkg.ident)
	write bool
}

func (in *inst) pkgVar(e ast.Expr) (*types.Var, ast.Expr) {
	switch x := e.(type) {
	case *ast.Ident:
		if o, ok := in.info.Uses[x].(*types.Var); ok && !o.IsField() && o.Pkg() != nil &&
			o.Parent() == o.Pkg().Scope() && in.instPkgs[o.Pkg().Path()] {
			return o, x
		}
	case *ast.SelectorExpr:
		if id, ok := x.X.(*ast.Ident); ok {
			if _, isPkg := in.info.Uses[id].(*types.PkgName); isPkg {
				if o, ok := in.info.Uses[x.Sel].(*types.Var); ok && !o.IsField() && o.Pkg() != nil &&
					o.Parent() == o.Pkg().Scope() && in.instPkgs[o.Pkg().Path()] {
					return o, x
				}
			}
		}
	}
	return nil, nil
}

// writeRoot returns the package-level variable written by an assignment to lhs:
// the variable itself, or a map it holds (m[k] = v).
func (in *inst) writeRoot(lhs ast.Expr) (*types.Var, ast.Expr) {
	for {
		if p, ok := lhs.(*ast.ParenExpr); ok {
			lhs = p.X
			continue
		}
		break
	}
	if v, e := in.pkgVar(lhs); v != nil {
		return v, e
	}
	if ix, ok := lhs.(*ast.IndexExpr); ok {
		if v, e := in.pkgVar(ix.X); v != nil {
			if _, isMap := v.Type().Underlying().(*types.Map); isMap {
				return v, e
			}
		}
	}
	return nil, nil
}

func (in *inst) accessProbes(s ast.Stmt) []ast.Stmt {
	var accs []access
	writes := map[ast.Expr]bool{}
	addWrite := func(lhs ast.Expr) {
		if v, e := in.writeRoot(lhs); v != nil {
			writes[e] = true
			accs = append(accs, access{v, e, true})
		}
	}
	var visit func(n ast.Node) bool
	visit = func(n ast.Node) bool {
		switch x := n.(type) {
		case nil:
			return false
		case *ast.FuncLit:
			return false
		case *ast.BlockStmt:
			if n == ast.Node(s) {
				return false // a bare block statement: its list is handled on its own
			}
			return in.swBody[x]
		case *ast.CaseClause:
			for _, e := range x.List {
				ast.Inspect(e, visit)
			}
			return false
		case *ast.CommClause:
			return false
		case *ast.AssignStmt:
			for _, l := range x.Lhs {
				addWrite(l)
			}
		case *ast.IncDecStmt:
			addWrite(x.X)
		case *ast.CallExpr:
			// a method with a pointer receiver called on a package-level variable of struct
			// type (a shared buffer, a counter object ...) may change it: a write
			if se, ok := x.Fun.(*ast.SelectorExpr); ok {
				if selInfo := in.info.Selections[se]; selInfo != nil && selInfo.Kind() == types.MethodVal {
					if v, e := in.pkgVar(se.X); v != nil {
						if _, isStruct := v.Type().Underlying().(*types.Struct); isStruct {
							if sig, ok := selInfo.Obj().Type().(*types.Signature); ok && sig.Recv() != nil {
								if _, ptr := sig.Recv().Type().(*types.Pointer); ptr {
									writes[e] = true
									accs = append(accs, access{v, e, true})
								}
							}
						}
					}
				}
			}
			if id, ok := x.Fun.(*ast.Ident); ok && id.Name == "delete" && len(x.Args) == 2 {
				if _, isB := in.info.Uses[id].(*types.Builtin); isB {
					if v, e := in.pkgVar(x.Args[0]); v != nil {
						writes[e] = true
						accs = append(accs, access{v, e, true})
					}
				}
			}
		case *ast.SelectorExpr:
			if v, e := in.pkgVar(x); v != nil {
				if !writes[e] {
					accs = append(accs, access{v, e, false})
				}
				return false
			}
		case *ast.Ident:
			if v, e := in.pkgVar(x); v != nil {
				if !writes[e] {
					accs = append(accs, access{v, e, false})
				}
			}
		}
		return true
	}
	switch x := s.(type) {
	case *ast.BlockStmt:
		return nil
	case *ast.LabeledStmt:
		ast.Inspect(x.Stmt, visit)
	default:
		ast.Inspect(s, visit)
	}
	if len(accs) == 0 {
		return nil
	}
	// one probe per (variable, strongest kind)
	type key struct {
		v *types.Var
	}
	seen := map[*types.Var]int{}
	var out []ast.Stmt
	var order []*types.Var
	kind := map[*types.Var]bool{}
	exprOf := map[*types.Var]ast.Expr{}
	for _, a := range accs {
		if _, ok := seen[a.v]; !ok {
			seen[a.v] = len(order)
			order = append(order, a.v)
			exprOf[a.v] = a.expr
		}
		if a.write {
			kind[a.v] = true
		}
	}
	for _, v := range order {
		// sync primitives and functions are not data
		if isSyncType(v.Type()) {
			continue
		}
		in.stats.AccessProbes++
		w := "false"
		if kind[v] {
			w = "true"
		}
		out = append(out, &ast.ExprStmt{X: &ast.CallExpr{Fun: sel("simrt", "Access"), Args: []ast.Expr{
			&ast.UnaryExpr{Op: token.AND, X: cloneVarExpr(exprOf[v])},
			ast.NewIdent(w),
			&ast.BasicLit{Kind: token.STRING, Value: strconv.Quote(v.Pkg().Name() + "." + v.Name())},
		}}})
	}
	return out
}

func cloneVarExpr(e ast.Expr) ast.Expr {
	switch x := e.(type) {
	case *ast.Ident:
		return ast.NewIdent(x.Name)
	case *ast.SelectorExpr:
		return &ast.SelectorExpr{X: cloneVarExpr(x.X), Sel: ast.NewIdent(x.Sel.Name)}
	}
	return e
}

func isSyncType(t types.Type) bool {
	s := t.String()
	return strings.Contains(s, "sync.Mutex") || strings.Contains(s, "sync.RWMutex") || strings.Contains(s, "sync.Cond") ||
		strings.Contains(s, "sync.WaitGroup") || strings.Contains(s, "sync.Once")
}

// ---------------------------------------------------------------------------

var swaps = map[string][2]string{
	"sync":        {"simrt/simsync", "sync"},
	"time":        {"simrt/simtime", "time"},
	"math/rand":   {"simrt/simrand", "rand"},
	"sync/atomic": {"simrt/simatomic", "atomic"},
}

func (in *inst) swapImports() {
	for _, is := range in.file.Imports {
		p, _ := strconv.Unquote(is.Path.Value)
		if sw, ok := swaps[p]; ok {
			is.Path.Value = strconv.Quote(sw[0])
			if is.Name == nil {
				is.Name = ast.NewIdent(sw[1])
			}
			in.stats.ImportSwaps++
		}
	}
	add := map[string]string{"simrt": "simrt"}
	for p, n := range in.needImp {
		add[p] = n
	}
	var paths []string
	for p := range add {
		paths = append(paths, p)
	}
	sort.Strings(paths)
	var specs []ast.Spec
	for _, p := range paths {
		specs = append(specs, &ast.ImportSpec{Name: ast.NewIdent(add[p]), Path: &ast.BasicLit{Kind: token.STRING, Value: strconv.Quote(p)}})
	}
	gd := &ast.GenDecl{Tok: token.IMPORT, Lparen: 1, Specs: specs}
	// imports must precede other declarations
	in.file.Decls = append([]ast.Decl{gd}, in.file.Decls...)
	// keep simrt referenced even in files without statements
	in.file.Decls = append(in.file.Decls, &ast.GenDecl{Tok: token.VAR, Specs: []ast.Spec{
		&ast.ValueSpec{Names: []*ast.Ident{ast.NewIdent("_")}, Values: []ast.Expr{sel("simrt", "P")}}}})
}
