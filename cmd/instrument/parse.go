package main

import (
	"go/ast"
	"go/parser"
)

func parserParseExpr(s string) (ast.Expr, error) { return parser.ParseExpr(s) }
