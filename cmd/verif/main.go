// Command verif is the driver of the deterministic-simulation checks.
//
//	verif check <ID> [--tier quick|thorough]   build from /repo's working tree, explore, report
//	verif replay <file>                        rebuild and replay one violation (exit 1 iff it reproduces)
//	verif selftest <ID>                        determinism self-test (several processes, GOMAXPROCS 1/4/16)
//
// Exit codes: 0 property held on everything explored (known findings are listed,
// not failed); 1 with a line "VIOLATION property=<id> replay=<path>"; 2 harness
// trouble (build failure, watchdog, nondeterminism) — never a VIOLATION line.
package main

import (
	"bufio"
	"bytes"
	"crypto/sha1"
	"encoding/json"
	"fmt"
	"os"
	"os/exec"
	"path/filepath"
	"runtime"
	"sort"
	"strconv"
	"strings"
	"sync"
	"time"
)

const (
	repoDir = "/repo"
	goRoot  = "/opt/veriftools/go1.26.8"
	tmpBase = "/tmp/ecalverif"
)

// verifDir is the directory the check wrapper runs in (/verif, or a snapshot of it
// when started through `vp run`): evidence and replay files are written there.
var verifDir = func() string {
	if d, err := os.Getwd(); err == nil {
		return d
	}
	return "/verif"
}()

type engineKind int

const (
	engSched engineKind = iota
	engBubble
)

type propCfg struct {
	id      string
	engine  engineKind   // first engine (kept for the components section of the evidence)
	engines []engineKind // all engines the check runs
	quickS int // exploration seconds (wall) for the quick tier
	thorS  int // per base seed for the thorough tier
	rule   string
	assume []string
}

var commonAssume = []string{
	"the instrumenter's rewrites (import swap of sync/time/math-rand, go->task spawn, probe before every statement, deterministic map range, access probes) preserve program semantics (DESIGN.md 3.1)",
	"the drop-in primitives allow exactly the behaviours the Go documentation allows (DESIGN.md 3.3)",
	"pre-emption happens at statement boundaries and at synchronisation operations only; executions are sequentially consistent",
	"exploration is sampling: a clean batch is evidence, not proof",
}

var props = map[string]*propCfg{}

func reg(p *propCfg) { props[p.id] = p }

func init() {
	schedRule := "plan (workload, faults) generated from hash(VERIF_SEED, property, run index); schedule chosen by a seeded scheduler at every statement boundary / sync operation; a run is non-trivial when >=2 tasks were live simultaneously and >=1 non-forced context switch, wake choice or early timer occurred; distinct = distinct hash of the sequence of (task, sync primitive, object, outcome) events among non-trivial runs"
	for _, id := range []string{"C01", "C02", "C09", "C10", "C11", "C12", "C13", "C15", "C16"} {
		reg(&propCfg{id: id, engine: engSched, engines: []engineKind{engSched}, quickS: 25, thorS: 240, rule: schedRule, assume: commonAssume})
	}
	reg(&propCfg{id: "C07", engine: engBubble, engines: []engineKind{engSched, engBubble}, quickS: 30, thorS: 240,
		rule: "inputs generated from hash(VERIF_SEED, run index): valid programs, token- and byte-level mutations, raw fragments. Bubble engine: each input parsed inside one testing/synctest bubble on uninstrumented code; non-trivial = input with >= 4 tokens, distinct = distinct input text. Scheduler engine (second half of the budget): 2-6 such inputs per run parsed with the lexer goroutine as a managed task (a panic inside it is caught and attributed); non-trivial/distinct as for the scheduler checks (trace hash)",
		assume: []string{"testing/synctest (go1.26.8) reports a bubble whose root returned while another goroutine of the bubble is durably blocked", "tree-shape table written from the language reference (ecal.md)", "exploration is sampling"}})
}

func env() []string {
	e := os.Environ()
	var out []string
	for _, kv := range e {
		if strings.HasPrefix(kv, "PATH=") || strings.HasPrefix(kv, "GOFLAGS=") || strings.HasPrefix(kv, "GOPROXY=") ||
			strings.HasPrefix(kv, "GOSUMDB=") || strings.HasPrefix(kv, "GOTOOLCHAIN=") || strings.HasPrefix(kv, "GOMAXPROCS=") {
			continue
		}
		out = append(out, kv)
	}
	out = append(out, "PATH="+goRoot+"/bin:"+os.Getenv("PATH"), "GOFLAGS=-mod=mod", "GOPROXY=off", "GOSUMDB=off", "GOTOOLCHAIN=local")
	return out
}

func run(dir string, extraEnv []string, name string, args ...string) ([]byte, error) {
	cmd := exec.Command(name, args...)
	cmd.Dir = dir
	cmd.Env = append(env(), extraEnv...)
	return cmd.CombinedOutput()
}

// scratchDirs are removed when the driver leaves through trouble() (os.Exit skips
// deferred calls): nothing a later command needs is kept under /tmp.
var scratchDirs []string

func trouble(format string, args ...interface{}) {
	fmt.Fprintf(os.Stderr, "HARNESS-TROUBLE: "+format+"\n", args...)
	for _, d := range scratchDirs {
		os.RemoveAll(d)
	}
	os.Exit(2)
}

// build prepares a scratch directory with an (instrumented) copy of /repo's
// working tree and the harness binary built against it.
// pruneStale removes scratch directories left behind by a driver process that no
// longer exists (killed from outside).
func pruneStale() {
	ents, _ := os.ReadDir(tmpBase)
	for _, e := range ents {
		parts := strings.Split(e.Name(), "-")
		if len(parts) < 2 {
			continue
		}
		pid, err := strconv.Atoi(parts[1])
		if err != nil || pid == os.Getpid() {
			continue
		}
		if _, err := os.Stat(fmt.Sprintf("/proc/%d", pid)); os.IsNotExist(err) {
			os.RemoveAll(filepath.Join(tmpBase, e.Name()))
		}
	}
}

func build(p *propCfg, eng engineKind) (scratch string) {
	pruneStale()
	scratch = filepath.Join(tmpBase, fmt.Sprintf("%s-%d-%d", p.id, os.Getpid(), eng))
	os.RemoveAll(scratch)
	scratchDirs = append(scratchDirs, scratch)
	if err := os.MkdirAll(scratch, 0755); err != nil {
		trouble("mkdir: %v", err)
	}
	src := os.Getenv("VERIF_REPO")
	if src == "" {
		src = repoDir
	}
	if out, err := run("/", nil, "rsync", "-a", "--exclude", ".git", "--exclude", "*_test.go", src+"/", scratch+"/ecal/"); err != nil {
		trouble("copying %s failed: %v\n%s", src, err, out)
	}
	bin := filepath.Join(verifDir, "bin")
	os.MkdirAll(bin, 0755)
	if eng == engSched {
		if out, err := run(verifDir, nil, "go", "build", "-o", filepath.Join(bin, "instrument"), "./cmd/instrument"); err != nil {
			trouble("building the instrumenter failed: %v\n%s", err, out)
		}
		out, err := run(verifDir, nil, filepath.Join(bin, "instrument"), "-dir", scratch+"/ecal", "-simrt", filepath.Join(verifDir, "simrt"),
			"-sites", scratch+"/sites.json")
		if err != nil {
			trouble("instrumenting the working tree failed (does /repo build?): %v\n%s", err, out)
		}
		os.WriteFile(scratch+"/instrument-stats.json", out, 0644)
		// export files for state the harness must reset between runs (scratch copy only)
		exps, _ := filepath.Glob(filepath.Join(verifDir, "harness", "exports", "*_verif_export.go.txt"))
		for _, e := range exps {
			pkg := strings.ReplaceAll(strings.TrimSuffix(filepath.Base(e), "_verif_export.go.txt"), "__", "/")
			b, _ := os.ReadFile(e)
			if err := os.WriteFile(filepath.Join(scratch, "ecal", pkg, "verif_export.go"), b, 0644); err != nil {
				trouble("writing export file: %v", err)
			}
		}
	}
	tmpl, err := os.ReadFile(filepath.Join(verifDir, "harness", "go.mod.tmpl"))
	if err != nil {
		trouble("%v", err)
	}
	mod := strings.ReplaceAll(string(tmpl), "@ECAL@", scratch+"/ecal")
	mod = strings.ReplaceAll(mod, "@SIMRT@", filepath.Join(verifDir, "simrt"))
	os.WriteFile(scratch+"/go.mod", []byte(mod), 0644)
	sum, _ := os.ReadFile(filepath.Join(verifDir, "harness", "go.sum"))
	os.WriteFile(scratch+"/go.sum", sum, 0644)
	if eng == engSched {
		if out, err := run(filepath.Join(verifDir, "harness"), nil, "go", "build", "-trimpath", "-modfile="+scratch+"/go.mod", "-o", scratch+"/harness", "."); err != nil {
			trouble("building the harness against the instrumented working tree failed: %v\n%s", err, out)
		}
	} else {
		if out, err := run(filepath.Join(verifDir, "harness", "bubble"), nil, "go", "test", "-c", "-trimpath", "-modfile="+scratch+"/go.mod", "-o", scratch+"/harness", "."); err != nil {
			trouble("building the bubble harness against the working tree failed: %v\n%s", err, out)
		}
	}
	return scratch
}

type violation struct {
	Property string          `json:"property"`
	Class    string          `json:"class"`
	Sig      string          `json:"signature"`
	Msg      string          `json:"message"`
	BaseSeed uint64          `json:"base_seed"`
	RunIndex int64           `json:"run_index"`
	Plan     json.RawMessage `json:"plan"`
	Tape     []int           `json:"tape"`
	Engine   string          `json:"engine,omitempty"`
	path     string
	eng      engineKind
	scratch  string
}

type stats struct {
	Runs        int64             `json:"runs"`
	Nontrivial  int64             `json:"nontrivial_runs"`
	Decisions   int64             `json:"decisions"`
	Probes      int64             `json:"probes"`
	Switches    int64             `json:"switches"`
	Preempts    int64             `json:"preempts"`
	WakeChoices int64             `json:"wake_choices"`
	TimerFires  int64             `json:"timer_fires"`
	EagerFires  int64             `json:"eager_timer_fires"`
	SimTimeNs   int64             `json:"sim_time_ns"`
	Tasks       int64             `json:"tasks"`
	Counters    map[string]int64  `json:"counters"`
	Policies    map[string]int64  `json:"policies"`
	Reruns      int64             `json:"determinism_reruns"`
	WallS       float64           `json:"wall_s"`
	Samples     []json.RawMessage `json:"samples"`
	Violations  int               `json:"violations"`
	Extra       map[string]interface{} `json:"extra,omitempty"`
}

type finding struct {
	Status   string `json:"status"` // "known" | "fixed"
	Property string `json:"property"`
	Class    string `json:"class"`
	Sig      string `json:"signature"`
	What     string `json:"what"`
	Commit   string `json:"commit,omitempty"`
}

func loadFindings() []finding {
	f, err := os.Open(filepath.Join(verifDir, "KNOWN_FINDINGS.jsonl"))
	if err != nil {
		return nil
	}
	defer f.Close()
	var out []finding
	sc := bufio.NewScanner(f)
	sc.Buffer(make([]byte, 1<<20), 1<<20)
	for sc.Scan() {
		l := strings.TrimSpace(sc.Text())
		if l == "" || strings.HasPrefix(l, "#") {
			continue
		}
		var fd finding
		if json.Unmarshal([]byte(l), &fd) == nil {
			out = append(out, fd)
		}
	}
	return out
}

func main() {
	if len(os.Args) < 3 {
		fmt.Fprintln(os.Stderr, "usage: verif check <ID> [--tier quick|thorough] | replay <file> | selftest <ID>")
		os.Exit(2)
	}
	switch os.Args[1] {
	case "check":
		tier := os.Getenv("VERIF_TIER")
		for i := 3; i < len(os.Args); i++ {
			if os.Args[i] == "--tier" && i+1 < len(os.Args) {
				tier = os.Args[i+1]
			}
			if os.Args[i] == "quick" || os.Args[i] == "thorough" {
				tier = os.Args[i]
			}
		}
		if tier == "" {
			tier = "quick"
		}
		os.Exit(check(os.Args[2], tier))
	case "replay":
		os.Exit(replayCmd(os.Args[2]))
	case "selftest":
		os.Exit(selftest(os.Args[2]))
	}
	fmt.Fprintln(os.Stderr, "unknown command")
	os.Exit(2)
}

func baseSeed() uint64 {
	if s := os.Getenv("VERIF_SEED"); s != "" {
		if v, err := strconv.ParseUint(s, 10, 64); err == nil {
			return v
		}
		if v, err := strconv.ParseInt(s, 10, 64); err == nil {
			return uint64(v)
		}
	}
	return 1
}

// harnessRun invokes the harness binary of one engine.
func harnessRun(scratch string, eng engineKind, extraEnv []string, args []string) ([]byte, error) {
	if eng == engBubble {
		return run(scratch, append([]string{"BUBBLE_ARGS=" + strings.Join(args, " ")}, extraEnv...), scratch+"/harness", "-test.run", "TestBubble", "-test.timeout", "0")
	}
	return run(scratch, extraEnv, scratch+"/harness", args...)
}

func engName(e engineKind) string {
	if e == engBubble {
		return "bubble"
	}
	return "sched"
}

func engOf(name string, p *propCfg) engineKind {
	switch name {
	case "bubble":
		return engBubble
	case "sched":
		return engSched
	}
	return p.engines[0]
}

func check(id, tier string) int {
	p := props[id]
	if p == nil {
		trouble("unknown property %s", id)
	}
	start := time.Now()
	scratches := map[engineKind]string{}
	for _, e := range p.engines {
		sc := build(p, e)
		scratches[e] = sc
		defer os.RemoveAll(sc)
	}
	scratch := scratches[engSched]
	if scratch == "" {
		scratch = scratches[p.engines[0]]
	}
	buildS := time.Since(start).Seconds()

	workers := runtime.NumCPU()
	if w := os.Getenv("VERIF_WORKERS"); w != "" {
		if n, err := strconv.Atoi(w); err == nil && n > 0 {
			workers = n
		}
	}
	seed := baseSeed()
	seeds := []uint64{seed}
	secs := p.quickS
	if tier == "thorough" {
		seeds = []uint64{seed, seed + 1000003, seed + 2000003}
		secs = p.thorS
	}
	if s := os.Getenv("VERIF_SECONDS"); s != "" {
		if n, err := strconv.Atoi(s); err == nil && n > 0 {
			secs = n
		}
	}
	outDir := filepath.Join(scratch, "out")
	total := stats{Counters: map[string]int64{}, Policies: map[string]int64{}}
	hashes := map[string]struct{}{}
	var viols []violation
	exploreStart := time.Now()
	type phase struct {
		seed uint64
		eng  engineKind
	}
	var phases []phase
	for _, sd := range seeds {
		for _, e := range p.engines {
			phases = append(phases, phase{sd, e})
		}
	}
	secs = secs / len(p.engines)
	if secs < 3 {
		secs = 3
	}
	skipBubble := false
	for round, ph := range phases {
		sd, eng, scratch := ph.seed, ph.eng, scratches[ph.eng]
		if eng == engBubble && skipBubble {
			fmt.Println("note: bubble phase skipped - the scheduler engine found a panic inside a parse; on uninstrumented code a panic in the lexer goroutine would take the worker process down")
			continue
		}
		rdir := filepath.Join(outDir, fmt.Sprintf("r%d", round))
		var wg sync.WaitGroup
		var mu sync.Mutex
		troubleMsg := ""
		for w := 0; w < workers; w++ {
			wg.Add(1)
			go func(w int) {
				defer wg.Done()
				args := []string{"-mode", "explore", "-prop", id, "-seed", fmt.Sprint(sd), "-from", fmt.Sprint(w), "-stride", fmt.Sprint(workers),
					"-budget", fmt.Sprintf("%ds", secs), "-tier", tier, "-out", rdir, "-sites", scratch + "/sites.json"}
				out, err := harnessRun(scratch, eng, nil, args)
				if err != nil {
					code := -1
					if ee, ok := err.(*exec.ExitError); ok {
						code = ee.ExitCode()
					}
					if code != 1 {
						mu.Lock()
						troubleMsg += fmt.Sprintf("worker %d exited with %d: %s\n", w, code, tail(out, 6000))
						mu.Unlock()
					}
				}
			}(w)
		}
		wg.Wait()
		if troubleMsg != "" {
			trouble("%s", troubleMsg)
		}
		files, _ := filepath.Glob(filepath.Join(rdir, "stats-*.json"))
		if len(files) == 0 {
			trouble("no worker produced statistics")
		}
		for _, f := range files {
			b, _ := os.ReadFile(f)
			var st stats
			if err := json.Unmarshal(b, &st); err != nil {
				trouble("bad stats file %s: %v", f, err)
			}
			total.Runs += st.Runs
			total.Nontrivial += st.Nontrivial
			total.Decisions += st.Decisions
			total.Probes += st.Probes
			total.Switches += st.Switches
			total.Preempts += st.Preempts
			total.WakeChoices += st.WakeChoices
			total.TimerFires += st.TimerFires
			total.EagerFires += st.EagerFires
			total.SimTimeNs += st.SimTimeNs
			total.Tasks += st.Tasks
			total.Reruns += st.Reruns
			total.Violations += st.Violations
			for k, v := range st.Counters {
				total.Counters[k] += v
			}
			for k, v := range st.Policies {
				total.Policies[k] += v
			}
			if len(total.Samples) < 4 {
				for _, s := range st.Samples {
					if len(total.Samples) < 4 {
						total.Samples = append(total.Samples, s)
					}
				}
			}
		}
		hfiles, _ := filepath.Glob(filepath.Join(rdir, "hashes-*.txt"))
		for _, f := range hfiles {
			b, _ := os.ReadFile(f)
			for _, l := range strings.Split(string(b), "\n") {
				if l != "" {
					hashes[l] = struct{}{}
				}
			}
		}
		vfiles, _ := filepath.Glob(filepath.Join(rdir, "viol-*.json"))
		sort.Strings(vfiles)
		for _, f := range vfiles {
			b, _ := os.ReadFile(f)
			var v violation
			if err := json.Unmarshal(b, &v); err != nil {
				trouble("bad violation file %s: %v", f, err)
			}
			v.path = f
			v.eng, v.scratch, v.Engine = eng, scratch, engName(eng)
			viols = append(viols, v)
			if eng == engSched && v.Class == "task-panic" {
				skipBubble = true
			}
		}
	}
	exploreS := time.Since(exploreStart).Seconds()

	// one report per distinct (class, signature)
	findings := loadFindings()
	seen := map[string]bool{}
	exit := 0
	var reported []map[string]interface{}
	sort.SliceStable(viols, func(i, j int) bool { return len(viols[i].Tape) < len(viols[j].Tape) })
	minStart := time.Now()
	for _, v := range viols {
		key := v.Class + "|" + v.Sig
		if seen[key] {
			continue
		}
		seen[key] = true
		if len(seen) > 8 {
			fmt.Printf("note: further distinct violation signatures were found and not minimised (first: %s %s)\n", v.Class, v.Sig)
			break
		}
		minBudget := 40
		if left := 200 - int(time.Since(minStart).Seconds()); left < minBudget {
			minBudget = left
		}
		if minBudget < 5 {
			minBudget = 5
		}
		h := sha1.Sum([]byte(key))
		rp := filepath.Join(verifDir, "replays", fmt.Sprintf("%s-%x.json", id, h[:5]))
		os.MkdirAll(filepath.Dir(rp), 0755)
		margs := []string{"-mode", "minimise", "-in", v.path, "-out", rp, "-budget", fmt.Sprintf("%ds", minBudget), "-sites", v.scratch + "/sites.json"}
		out, err := harnessRun(v.scratch, v.eng, nil, margs)
		if err != nil && strings.Contains(string(out), "BUDGET-NOT-CONFIRMED") {
			fmt.Printf("note: a run exhausted its probe budget (%s) but ends when given 20x the budget: slow, not reported\n", v.Sig)
			delete(seen, key)
			continue
		}
		if err != nil {
			trouble("minimising %s failed: %v\n%s", v.path, err, tail(out, 4000))
		}
		// remember which engine produced the file (the replay command needs it)
		if rb, rerr := os.ReadFile(rp); rerr == nil {
			var m map[string]interface{}
			if json.Unmarshal(rb, &m) == nil {
				m["engine"] = engName(v.eng)
				if nb, merr := json.MarshalIndent(m, "", " "); merr == nil {
					os.WriteFile(rp, nb, 0644)
				}
			}
		}
		// the minimised file must reproduce in a fresh process
		code := replayIn(v.scratch, v.eng, rp, false, nil)
		if code != 1 {
			trouble("replay of %s in a fresh process did not reproduce the violation (exit %d): nondeterminism", rp, code)
		}
		known := false
		for _, f := range findings {
			if f.Status == "known" && f.Property == id && f.Class == v.Class && f.Sig == v.Sig {
				fmt.Printf("KNOWN-FINDING: property=%s %s [%s %s] replay=%s\n", id, f.What, v.Class, v.Sig, rp)
				known = true
			}
		}
		rb, _ := os.ReadFile(rp)
		var mv violation
		json.Unmarshal(rb, &mv)
		reported = append(reported, map[string]interface{}{"class": v.Class, "signature": v.Sig, "message": mv.Msg, "replay": rp, "known_finding": known,
			"tape_len": len(mv.Tape)})
		if !known {
			fmt.Printf("VIOLATION property=%s replay=%s\n", id, rp)
			fmt.Printf("  class=%s signature=%s\n  %s\n", v.Class, v.Sig, mv.Msg)
			exit = 1
		}
	}

	// evidence
	wall := time.Since(start).Seconds()
	var samples []interface{}
	for _, s := range total.Samples {
		samples = append(samples, s)
	}
	if len(samples) == 0 {
		samples = append(samples, "no run with >=2 live tasks and a pre-emption was sampled")
	}
	inst := map[string]interface{}{}
	if b, err := os.ReadFile(scratch + "/instrument-stats.json"); err == nil {
		json.Unmarshal(bytes.TrimSpace(b), &inst)
	}
	faults := map[string]int64{}
	probes := map[string]int64{}
	for k, v := range total.Counters {
		if strings.HasPrefix(k, "fault_") {
			faults[strings.TrimPrefix(k, "fault_")] = v
		} else {
			probes[k] = v
		}
	}
	faults["timer_fired_early_while_tasks_runnable"] = total.EagerFires
	faults["wake_order_choice"] = total.WakeChoices
	faults["preemption"] = total.Preempts
	cov := map[string]interface{}{
		"evaluations":         total.Runs,
		"distinct_nontrivial": len(hashes),
		"rule":                p.rule,
		"samples":             samples,
		"nontrivial_runs":     total.Nontrivial,
		"runs_per_hour":       int64(float64(total.Runs) / exploreS * 3600),
		"base_seeds":          seeds,
		"worker_processes":    workers,
		"sim_time_ns":         total.SimTimeNs,
		"decisions":           total.Decisions,
		"probes_executed":     total.Probes,
		"context_switches":    total.Switches,
		"tasks_created":       total.Tasks,
		"timer_fires":         total.TimerFires,
		"faults_fired":        faults,
		"reach_probes":        probes,
		"policies":            total.Policies,
		"determinism_reruns":  total.Reruns,
		"nondeterministic_ties": total.Counters["nondeterministic_ties"],
		"violations_reported": reported,
		"instrumentation":     inst,
		"build_s":             buildS,
		"explore_s":           exploreS,
		"components": map[string]interface{}{
			"real_instrumented":   []string{"engine", "engine/pool", "engine/pubsub", "interpreter", "scope", "parser (incl. lexer.go)", "util", "stdlib", "config", "cli/tool (driven by C15/C16 only: CLIDebugInterpreter, CLIInterpreter.HandleInput / LoadInitialFile, debugTelnetServer.HandleConnection)"},
			"real_uninstrumented": []string{"github.com/krotik/common", "stdlib/stdlib_gen.go (generated binding table)", "Go runtime and standard library"},
			"simulated":           []string{"goroutine scheduling (incl. the lexer goroutine)", "sync.Mutex/RWMutex/Cond/WaitGroup/Once", "channel send/receive/close/range", "sync/atomic functions (real values, simulated ordering)", "select", "time.Sleep/Now/NewTimer/After/AfterFunc/NewTicker", "sync.Pool and sync.Map (deterministic)", "math/rand top-level functions", "map iteration order", "package-level state (snapshot/restore between runs)"},
			"stubbed":             []string{"timeutil.Cron (stopped)", "TCP listener and sockets of the telnet debug server (in-memory connection handed to the real connection handler; accept loop not run)", "interactive terminal of the console (lines handed to CLIInterpreter.HandleInput)", "file import locator (memory locator; the console sessions use the real file locator on a scratch directory)", "stdout/stderr loggers (memory logger)"},
		},
	}
	if p.engine == engBubble {
		cov["components"] = map[string]interface{}{
			"bubble_engine": map[string]interface{}{
				"real":      []string{"parser (lexer goroutine, parser), pretty printer, interpreter validation - uninstrumented", "Go runtime and standard library"},
				"simulated": []string{"goroutine quiescence detection and fake clock of testing/synctest"},
				"stubbed":   []string{"timeutil.Cron (stopped)"},
			},
			"scheduler_engine": cov["components"],
		}
	}
	ev := map[string]interface{}{
		"property_id": id,
		"tier":        tier,
		"seed":        int64(seed),
		"level":       "exploration",
		"coverage":    cov,
		"assumptions": p.assume,
		"wall_s":      wall,
		"violations":  len(reported),
	}
	eb, _ := json.MarshalIndent(ev, "", " ")
	evDir := filepath.Join(verifDir, "evidence")
	if os.Getenv("VERIF_REPO") != "" {
		// a run against another tree (sensitivity experiments) must not overwrite the evidence of /repo
		evDir = filepath.Join(verifDir, "evidence", "alt")
	}
	os.MkdirAll(evDir, 0755)
	if err := os.WriteFile(filepath.Join(evDir, id+".json"), eb, 0644); err != nil {
		trouble("writing evidence: %v", err)
	}
	fmt.Printf("%s %s: %d runs (%d non-trivial, %d distinct interleavings) in %.0fs, %d distinct violation(s), exit %d\n",
		id, tier, total.Runs, total.Nontrivial, len(hashes), wall, len(reported), exit)
	return exit
}

func tail(b []byte, n int) string {
	if len(b) > n {
		return "..." + string(b[len(b)-n:])
	}
	return string(b)
}

func replayIn(scratch string, eng engineKind, file string, trace bool, w *os.File) int {
	args := []string{"-mode", "replay", "-in", file, "-sites", scratch + "/sites.json"}
	if trace {
		args = append(args, "-trace")
	}
	out, err := harnessRun(scratch, eng, nil, args)
	if w != nil {
		w.Write(out)
	}
	if err != nil {
		if ee, ok := err.(*exec.ExitError); ok {
			return ee.ExitCode()
		}
		return 2
	}
	return 0
}

func replayCmd(file string) int {
	b, err := os.ReadFile(file)
	if err != nil {
		trouble("%v", err)
	}
	var v violation
	if err := json.Unmarshal(b, &v); err != nil {
		trouble("%v", err)
	}
	p := props[v.Property]
	if p == nil {
		trouble("unknown property %q in %s", v.Property, file)
	}
	eng := engOf(v.Engine, p)
	scratch := build(p, eng)
	defer os.RemoveAll(scratch)
	abs, _ := filepath.Abs(file)
	code := replayIn(scratch, eng, abs, true, os.Stdout)
	if code == 1 {
		fmt.Printf("VIOLATION property=%s replay=%s\n", v.Property, abs)
		return 1
	}
	if code == 0 || code == 3 {
		return 0
	}
	return 2
}

// selftest: the same seeds in several processes at GOMAXPROCS 1, 4 and 16 must
// print byte-identical run summaries.
func selftest(id string) int {
	p := props[id]
	if p == nil {
		trouble("unknown property %s", id)
	}
	rc := 0
	for _, eng := range p.engines {
		if c := selftestEngine(id, p, eng); c != 0 {
			rc = c
		}
	}
	return rc
}

func selftestEngine(id string, p *propCfg, eng engineKind) int {
	scratch := build(p, eng)
	defer os.RemoveAll(scratch)
	runs := "40"
	if r := os.Getenv("VERIF_SELFTEST_RUNS"); r != "" {
		runs = r
	}
	var ref []byte
	procList := []string{"1", "4", "16", "1", "16", "4", "2", "16", "1", "8", "16", "4"}
	for k, procs := range procList {
		args := []string{"-mode", "selftest", "-prop", id, "-seed", fmt.Sprint(baseSeed()), "-from", "0", "-runs", runs, "-sites", scratch + "/sites.json"}
		out, err := harnessRun(scratch, eng, []string{"GOMAXPROCS=" + procs}, args)
		if err != nil {
			trouble("selftest process failed: %v\n%s", err, tail(out, 4000))
		}
		if k == 0 {
			ref = out
			continue
		}
		if !bytes.Equal(ref, out) {
			a, b := strings.Split(string(ref), "\n"), strings.Split(string(out), "\n")
			for i := range a {
				if i >= len(b) || a[i] != b[i] {
					fmt.Printf("NONDETERMINISM property=%s GOMAXPROCS=%s first differing run:\n  %s\n  %s\n", id, procs, a[i], func() string {
						if i < len(b) {
							return b[i]
						}
						return "<missing>"
					}())
					break
				}
			}
			return 2
		}
	}
	fmt.Printf("selftest %s (%s engine): %s runs identical across %d processes (GOMAXPROCS %s)\n%s", id, engName(eng), runs, len(procList), strings.Join(procList, ","), tail(ref, 300))
	return 0
}
