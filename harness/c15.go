package main

import (
	"encoding/json"
	"fmt"
	"sort"
	"strings"
	"time"

	"github.com/krotik/ecal/interpreter"
	"github.com/krotik/ecal/parser"
	"github.com/krotik/ecal/util"
	"simrt"
	"simrt/simsync"
)

// C15 — debugging only observes: same outcome, and every suspended thread can be resumed.
// C16 — the debugger command interface is total (same set-up, arbitrary command lines).

type dbgBP struct {
	Line int    `json:"line"`
	Op   string `json:"op"`   // break | disablebreak | rmbreak | rmsource (one debugger command each)
	When int    `json:"when"` // 0 = before the program starts, n>0 = at the n-th client round
}

type dbgPlan struct {
	Blocks       []string `json:"blocks"`
	Params       []int    `json:"params"`
	Workers      int      `json:"workers"`
	BPs          []dbgBP  `json:"breakpoints"`
	BreakOnStart bool     `json:"break_on_start,omitempty"`
	ResumeOnly   bool     `json:"resume_only,omitempty"`           // C15(c): static breakpoints, resume commands only, break-on-error off
	StopAtRound  int      `json:"stop_threads_at_round,omitempty"` // C15: StopThreads() while the program runs / threads are suspended
	StopAgain    bool     `json:"stop_again,omitempty"`            // ... and again for every thread that suspends after that
	Second       bool     `json:"second_client,omitempty"`         // C15: a second client resumes suspended threads concurrently with the first
	NoBOE        bool     `json:"no_break_on_error,omitempty"`     // break-on-error switched off (the default of the command line tool)
	Lines        int      `json:"lines"`
	// C16 only
	Garbage bool `json:"garbage,omitempty"`
	// the session runs through the debug console of cli/tool (cli.go)
	CLI *cliPlan `json:"cli,omitempty"`
}

func init() {
	register(&Workload{ID: "C15", Gen: func(r *simrt.RNG, tier string) interface{} { return dbgGen(r, tier, false) },
		New: func() interface{} { return &dbgPlan{} }, Run: func(p interface{}) { dbgRun(p.(*dbgPlan), "C15") }, Shrink: dbgShrink, Budget: 12_000_000})
	register(&Workload{ID: "C16", Gen: func(r *simrt.RNG, tier string) interface{} { return dbgGen(r, tier, true) },
		New: func() interface{} { return &dbgPlan{} }, Run: func(p interface{}) { dbgRun(p.(*dbgPlan), "C16") }, Shrink: dbgShrink, Budget: 12_000_000})
}

var dbgBlockKinds = []string{"straight", "func", "nested", "loop", "tryerr", "sinks", "deep", "zoo", "chain", "errdata", "lib", "multiline", "slow"}

// dbgItemLines: lines of the program that hold nothing but one item of a multi-line
// list literal (a constant or a call); the thread that evaluates the literal arrives at
// each of them.
func dbgItemLines(src string) []int {
	var out []int
	for i, l := range strings.Split(src, "\n") {
		if strings.HasPrefix(l, "    ") && strings.HasSuffix(l, ", # item") {
			out = append(out, i+1)
		}
	}
	return out
}

// a second source, loaded before the debugger is attached; its name starts with the
// name of the main source. Breakpoint lines >= dbgLibBase address this source.
const dbgLibName = "c15lib"
const dbgLibBase = 1000
const dbgLibSrc = "func libf(x) {\n    let a := x + 1\n    let b := a * 2\n    return b\n}\n"

func dbgBPTarget(line int) string {
	if line >= dbgLibBase {
		return fmt.Sprintf("%s:%d", dbgLibName, line-dbgLibBase)
	}
	return fmt.Sprintf("c15:%d", line)
}

func dbgGen(r *simrt.RNG, tier string, garbage bool) interface{} {
	p := &dbgPlan{Workers: 1 + r.Intn(3), Garbage: garbage}
	n := 1 + r.Intn(4)
	if tier == "thorough" {
		n = 1 + r.Intn(6)
	}
	usedSinks := false
	for i := 0; i < n; i++ {
		k := dbgBlockKinds[r.Intn(len(dbgBlockKinds))]
		if k == "sinks" {
			if usedSinks {
				k = "func"
			}
			usedSinks = true
		}
		p.Blocks = append(p.Blocks, k)
		p.Params = append(p.Params, 1+r.Intn(4))
	}
	p.ResumeOnly = !garbage && r.Bool(0.3)
	if p.ResumeOnly {
		// no error blocks (break-on-error is switched off anyway) so that the
		// suspensions are exactly the breakpoint arrivals
		for i, k := range p.Blocks {
			if k == "tryerr" || k == "errdata" {
				p.Blocks[i] = "func"
			}
		}
	}
	src, _ := dbgProgram(p)
	p.Lines = strings.Count(src, "\n") + 1
	// breakpoint script: a sequence of single commands over a few lines, so that
	// set / disable / remove hit the same line in every order
	nl := 1 + r.Intn(4)
	lines := make([]int, nl)
	hasLib := false
	for _, k := range p.Blocks {
		hasLib = hasLib || k == "lib"
	}
	for i := range lines {
		lines[i] = 1 + r.Intn(p.Lines)
		if hasLib && r.Bool(0.4) {
			lines[i] = dbgLibBase + 2 + r.Intn(3)
		}
	}
	nb := r.Intn(7)
	staticBPs := r.Bool(0.35) // the whole script runs before the program starts
	for i := 0; i < nb; i++ {
		bp := dbgBP{Line: lines[r.Intn(nl)], Op: "break"}
		switch x := r.Intn(10); {
		case x < 2 && i > 0:
			bp.Op = "disablebreak"
		case x < 4 && i > 0:
			bp.Op = "rmbreak"
		case x == 4 && i > 1:
			bp.Op = "rmsource"
		}
		if !p.ResumeOnly && !staticBPs {
			bp.When = r.Intn(4)
		}
		p.BPs = append(p.BPs, bp)
	}
	p.BreakOnStart = !p.ResumeOnly && r.Bool(0.3)
	if !garbage && !p.ResumeOnly && r.Bool(0.15) {
		// (not together with the C16 command mix: a client suspended as the command thread
		// of an injected expression needs the other client to resume it)
		p.StopAtRound = 1 + r.Intn(6)
		p.StopAgain = r.Bool(0.5)
	}
	p.Second = !garbage && !p.ResumeOnly && p.StopAtRound == 0 && r.Bool(0.2)
	p.NoBOE = !p.ResumeOnly && r.Bool(0.3)
	if (garbage && r.Bool(0.2)) || (!garbage && r.Bool(0.1)) {
		for i, k := range p.Blocks {
			if k == "lib" {
				p.Blocks[i] = "func" // the console has one entry file
			}
		}
		src, _ := dbgProgram(p)
		p.Lines = strings.Count(src, "\n") + 1
		p.ResumeOnly, p.StopAtRound, p.StopAgain, p.Second, p.BPs = false, 0, false, false, nil
		p.CLI = cliGen(r, p, tier)
	}
	return p
}

func dbgShrink(pi interface{}) []interface{} {
	p := pi.(*dbgPlan)
	if p.CLI != nil {
		return cliShrink(p)
	}
	var out []interface{}
	clone := func() *dbgPlan {
		q := *p
		q.Blocks = append([]string(nil), p.Blocks...)
		q.Params = append([]int(nil), p.Params...)
		q.BPs = append([]dbgBP(nil), p.BPs...)
		return &q
	}
	for i := range p.BPs {
		q := clone()
		q.BPs = append(q.BPs[:i], q.BPs[i+1:]...)
		out = append(out, q)
	}
	if p.BreakOnStart {
		q := clone()
		q.BreakOnStart = false
		out = append(out, q)
	}
	if p.StopAtRound > 1 {
		q := clone()
		q.StopAtRound--
		out = append(out, q)
	}
	if p.StopAgain {
		q := clone()
		q.StopAgain = false
		out = append(out, q)
	}
	if p.Second {
		q := clone()
		q.Second = false
		out = append(out, q)
	}
	if p.NoBOE {
		q := clone()
		q.NoBOE = false
		out = append(out, q)
	}
	// dropping a block shifts line numbers: re-map is not attempted, breakpoints are kept as numbers
	for i := range p.Blocks {
		if len(p.Blocks) > 1 {
			q := clone()
			q.Blocks = append(q.Blocks[:i], q.Blocks[i+1:]...)
			q.Params = append(q.Params[:i], q.Params[i+1:]...)
			out = append(out, q)
		}
		if p.Blocks[i] != "straight" {
			q := clone()
			q.Blocks[i] = "straight"
			out = append(out, q)
		}
	}
	if p.Workers > 1 {
		q := clone()
		q.Workers = 1
		out = append(out, q)
	}
	return out
}

// dbgProgram renders the plan's program; the second result tells whether sinks
// (concurrent log output) are involved.
func dbgProgram(p *dbgPlan) (string, bool) {
	var b strings.Builder
	sinks := false
	b.WriteString("func inc(a) {\n    let b := a + 1\n    return b\n}\n")
	b.WriteString("func dbl(a) {\n    return a * 2\n}\n")
	for i, k := range p.Blocks {
		c := p.Params[i]
		switch k {
		case "straight":
			fmt.Fprintf(&b, "v%d := %d + %d\nlog(\"v%d=\", v%d)\n", i, c, i, i, i)
		case "func":
			fmt.Fprintf(&b, "func f%d(a) {\n    let b := a + %d\n    log(\"f%d \", b)\n    return b\n}\nr%d := f%d(%d)\n", i, c, i, i, i, c+1)
		case "slow":
			// a call that takes (simulated) time: longer than the quiet period a timed
			// StopThreads waits for
			fmt.Fprintf(&b, "log(\"slow%d\")\nsleep(%d)\nlog(\"slept%d\")\n", i, 600000+c*50000, i)
		case "multiline":
			// an expression broken over several lines: some lines hold only a constant
			fmt.Fprintf(&b, "ml%d := [\n    %d, # item\n    true, # item\n    null, # item\n    false, # item\n    \"s\", # item\n    inc(%d), # item\n    0\n]\n", i, c, c)
		case "lib":
			fmt.Fprintf(&b, "lb%d := libf(%d) + libf(inc(%d))\nlog(\"lb%d=\", lb%d)\n", i, c, i, i, i)
		case "nested":
			fmt.Fprintf(&b, "n%d := inc(dbl(%d)) + dbl(inc(%d))\nlog(\"n%d=\", n%d)\n", i, c, c+1, i, i)
		case "loop":
			fmt.Fprintf(&b, "acc%d := 0\nfor i in range(1, %d) {\n    acc%d := acc%d + inc(i)\n}\nlog(\"acc%d=\", acc%d)\n", i, c, i, i, i, i)
		case "tryerr":
			fmt.Fprintf(&b, "func e%d(a) {\n    if a > %d {\n        raise(\"Err%d\", \"big\")\n    }\n    return a\n}\n", i, c, i)
			fmt.Fprintf(&b, "try {\n    t%d := e%d(%d)\n    log(\"noerr%d\")\n} except \"Err%d\" as err {\n    log(\"caught \", err.type)\n}\n", i, i, c+(i%2)*2, i, i)
		case "deep":
			fmt.Fprintf(&b, "func d%d(a) {\n    if a <= 0 {\n        return 0\n    }\n    return 1 + d%d(a - 1)\n}\nq%d := d%d(%d)\n", i, i, i, i, c*5)
		case "zoo":
			// assorted values a debugger has to describe: non-finite numbers, nesting, non-string keys
			fmt.Fprintf(&b, "zinf%d := %d / 0\nzl%d := [1, [2, %d], {\"a\": 1}]\nzm%d := {1: 2, \"k\": [%d], true: null}\nzs%d := inc(len(zl%d))\n", i, c, i, c, i, c, i, i)
		case "chain":
			// a call on a function result whose argument list continues on the next line (the
			// arguments are constants: on the pinned tree the arguments of such a call are
			// resolved in the scope the callee was defined in, so `inc(4)` is unknown there -
			// an observation outside C15/C16, DESIGN.md 9)
			fmt.Fprintf(&b, "obj%d := {\"mk\": func () {\n    return {\"add\": func (a) {\n        return a + %d\n    }}\n}}\nres%d := obj%d.mk().add(\n    %d + 1)\nlog(\"res%d=\", res%d)\n", i, c, i, i, c, i, i)
		case "errdata":
			if c%2 == 0 {
				fmt.Fprintf(&b, "func ed%d(a) {\n    let loc := [a, {2: a}]\n    raise(\"ErrD%d\", \"d\", {1: %d, \"l\": [a]})\n}\n", i, i, c)
				fmt.Fprintf(&b, "try {\n    ed%d(%d)\n} except \"ErrD%d\" as err {\n    log(\"caught \", err.type)\n}\n", i, c, i)
			} else {
				// an error without type, detail or data
				fmt.Fprintf(&b, "func ed%d(a) {\n    let loc := [a, {2: a}]\n    raise()\n}\n", i)
				fmt.Fprintf(&b, "try {\n    ed%d(%d)\n} except {\n    log(\"caught untyped\")\n}\n", i, c)
			}
		case "sinks":
			sinks = true
			b.WriteString("total := 0\ngm := {\"n\": 0}\n")
			b.WriteString("sink starter\n    kindmatch [\"c15.start\"]\n{\n")
			for e := 0; e < 1+c%3; e++ {
				fmt.Fprintf(&b, "    addEvent(\"w%d\", \"c15.work\", {\"v\": %d})\n", e, e+1)
			}
			b.WriteString("}\n")
			b.WriteString("sink worker\n    kindmatch [\"c15.work\"]\n{\n    let v := inc(event.state.v)\n    log(\"work \", v)\n    mutex m {\n        total := total + v\n        gm.n := gm.n + v\n        gm[v] := [v, {\"w\": v}]\n    }\n}\n")
			b.WriteString("errs := addEventAndWait(\"go\", \"c15.start\", {})\nlog(\"total=\", total, \" errs=\", errs)\n")
		}
	}
	b.WriteString("log(\"end\")\n")
	return strings.TrimRight(b.String(), "\n"), sinks
}

// recDebugger wraps the debugger seam and records every VisitState.
type recDebugger struct {
	util.ECALDebugger
	st *dbgState
}

type dbgVisit struct {
	line      int
	suspended bool
	depth     int // function calls entered and not yet left by the thread
}

type dbgState struct {
	visits   map[uint64][]dbgVisit
	conts    map[uint64]int // continue commands sent per thread
	inVisit  map[uint64]int
	progress map[uint64]int // debugger hook entries per thread
	lastCont map[uint64]int // progress of the thread when the last continue was sent to it
	depth    map[uint64]int // call depth per thread (step-in / step-out hooks)
}

func (d *recDebugger) VisitStepInState(node *parser.ASTNode, vs parser.Scope, tid uint64) util.TraceableRuntimeError {
	d.st.progress[tid]++
	err := d.ECALDebugger.VisitStepInState(node, vs, tid)
	d.st.depth[tid]++
	return err
}

func (d *recDebugger) VisitStepOutState(node *parser.ASTNode, vs parser.Scope, tid uint64, soErr error) util.TraceableRuntimeError {
	d.st.progress[tid]++
	d.st.depth[tid]--
	if soErr != nil {
		simrt.Note("thread %d: call on line %d returned the error value %v", tid, node.Token.Lline, soErr)
	}
	return d.ECALDebugger.VisitStepOutState(node, vs, tid, soErr)
}

func (d *recDebugger) VisitState(node *parser.ASTNode, vs parser.Scope, tid uint64) util.TraceableRuntimeError {
	d.st.progress[tid]++
	if node.Token == nil {
		return d.ECALDebugger.VisitState(node, vs, tid)
	}
	before := d.st.conts[tid]
	idx := len(d.st.visits[tid])
	line := node.Token.Lline
	if node.Token.Lsource == dbgLibName {
		line += dbgLibBase
	}
	d.st.visits[tid] = append(d.st.visits[tid], dbgVisit{line: line, depth: d.st.depth[tid]})
	err := d.ECALDebugger.VisitState(node, vs, tid)
	if d.st.conts[tid] != before {
		d.st.visits[tid][idx].suspended = true
		simrt.Note("thread %d was suspended at line %d", tid, line)
	}
	return err
}

type dbgOutcome struct {
	result string
	logs   []string
	scope  string
}

func dbgExec(p *dbgPlan, src string, withDebugger bool, prop string) dbgOutcome {
	erp, logger := newProvider(p.Workers, nil)
	vs := newGlobalScope()
	var out dbgOutcome
	if _, err := loadProgram(erp, dbgLibName, dbgLibSrc, vs); err != nil {
		simrt.Fail("oracle:setup", "setup", "second source does not load: %v", err)
	}
	if !withDebugger {
		res, err := loadProgram(erp, "c15", src, vs)
		out.result = fmt.Sprintf("%v | %v", res, err)
		erp.Processor.Finish()
		out.logs = logger.Slice()
		out.scope = vs.String()
		return out
	}
	st := &dbgState{visits: map[uint64][]dbgVisit{}, conts: map[uint64]int{}, inVisit: map[uint64]int{}, progress: map[uint64]int{}, lastCont: map[uint64]int{}, depth: map[uint64]int{}}
	inner := interpreter.NewECALDebugger(vs)
	dbg := &recDebugger{inner, st}
	erp.Debugger = dbg
	if p.ResumeOnly || p.NoBOE {
		dbg.BreakOnError(false)
	}
	applyBP := func(bp dbgBP) {
		if bp.Op == "rmsource" {
			dbgCmd(dbg, prop, "rmbreak "+strings.Split(dbgBPTarget(bp.Line), ":")[0])
			return
		}
		dbgCmd(dbg, prop, fmt.Sprintf("%s %s", bp.Op, dbgBPTarget(bp.Line)))
	}
	if prop == "C16" && p.Garbage {
		// commands in the state "nothing executed yet"
		for i := 0; i < 3; i++ {
			dbgCmd(dbg, prop, dbgGarbage(nil))
		}
	}
	for _, bp := range p.BPs {
		if bp.When == 0 {
			applyBP(bp)
		}
	}
	if p.BreakOnStart {
		dbgCmd(dbg, prop, "breakonstart true")
	}
	mainDone := &hbFlag{}
	var mainTid uint64
	mainTask := simrt.Go("main", func() {
		ast, err := parser.ParseWithRuntime("c15", src, erp)
		if err != nil {
			simrt.Fail("oracle:setup", "setup", "program does not parse: %v\n%s", err, src)
		}
		if err := ast.Runtime.Validate(); err != nil {
			simrt.Fail("oracle:setup", "setup", "program does not validate: %v", err)
		}
		mainTid = erp.NewThreadID()
		res, err := ast.Runtime.Eval(vs, make(map[string]interface{}), mainTid)
		dbg.RecordThreadFinished(mainTid)
		out.result = fmt.Sprintf("%v | %v", res, err)
		mainDone.set()
	})
	// the debugger client: polls status and resumes every suspended thread with a
	// command chosen by the scheduler, at an instant chosen by the scheduler
	var clients simsync.WaitGroup
	stopClients := &hbFlag{}
	if (prop == "C16" && p.Garbage) || p.Second {
		// a second debugger client (the debug server serves every connection on its own
		// goroutine): resumes suspended threads - also the command thread of the first
		// client, should an injected expression stop at a breakpoint - and inspects state
		clients.Add(1)
		simrt.Go("client2", func() {
			defer clients.Done()
			// keeps going until the first client has returned from its last command (which
			// may itself be suspended as the command thread of an injected expression)
			for !stopClients.get() {
				for _, tid := range dbgSuspended(dbg, prop) {
					if prop == "C16" && simrt.ChooseP(0.3) {
						dbgCmd(dbg, prop, fmt.Sprintf("describe %d", tid))
					}
					if simrt.ChooseP(0.7) {
						simrt.Count("fault_debug_second_client_cont")
						kinds := []string{"resume", "stepover", "stepin", "stepout"}
						if prop == "C15" {
							kinds = kinds[:3] // step-out at top level is C16's subject
						}
						dbgCmd(dbg, prop, fmt.Sprintf("cont %d %s", tid, kinds[simrt.Choose(len(kinds))]))
					}
				}
				if prop == "C16" && simrt.ChooseP(0.1) {
					dbgCmd(dbg, prop, "lockstate")
				}
				simrt.Yield()
			}
		})
	}
	round := 0
	idleRounds := 0
	stopped := false
	lastStop := map[uint64]int{}
	for !mainDone.get() && !mainTask.IsDone() {
		round++
		if p.StopAtRound > 0 && round >= p.StopAtRound && !stopped && len(dbgSuspended(dbg, prop)) > 0 {
			// stop all threads while at least one is suspended: every suspended thread must be
			// released (it ends at its next state change), the debugger must stay usable
			stopped = true
			simrt.Count("fault_stop_threads_while_suspended")
			if p.StopAgain || p.StopAtRound%2 == 0 {
				dbg.StopThreads(0)
			} else {
				// the timed form the console's reload uses: returns after a quiet period
				simrt.Count("fault_stop_threads_timed")
				dbg.StopThreads(500 * time.Millisecond)
			}
		}
		for _, bp := range p.BPs {
			if bp.When == round {
				applyBP(bp)
			}
		}
		suspended := dbgSuspended(dbg, prop)
		if stopped && p.StopAgain && len(suspended) > 0 {
			// threads that suspend again after the stop (an error on the line they were
			// on) are stopped again - as a reload of the debug console does - and every one of
			// them must be released by that
			for _, tid := range suspended {
				if last, ok := lastStop[tid]; ok && last == st.progress[tid] {
					simrt.Fail("oracle:stop-threads", "stop-did-not-release",
						"thread %d is still reported as suspended at the same place after StopThreads was called while it was suspended", tid)
				}
				lastStop[tid] = st.progress[tid]
			}
			simrt.Count("fault_stop_threads_again")
			dbg.StopThreads(0)
			simrt.Yield()
			continue
		}
		for _, tid := range suspended {
			cmd := "resume"
			if !p.ResumeOnly {
				cmd = []string{"resume", "stepin", "stepover", "stepout"}[simrt.Choose(4)]
			}
			if prop == "C16" && p.Garbage && simrt.ChooseP(0.5) {
				dbgCmd(dbg, prop, dbgGarbage(suspended))
			}
			if prop == "C16" && p.Garbage && simrt.ChooseP(0.5) {
				dbgCmd(dbg, prop, dbgPlausible(p, suspended))
			}
			if cmd == "stepout" && len(dbgCallStack(dbg, tid)) == 0 {
				if prop == "C15" {
					cmd = "stepover" // step-out at top level is C16's subject (command x state totality)
				}
			}
			// a thread reported as suspended must be released by the continue addressed to
			// it: a second continue for the same suspension (no debugger hook entered by the
			// thread in between) means the first one was lost
			if last, ok := st.lastCont[tid]; ok && last == st.progress[tid] && prop == "C15" && !p.Second {
				simrt.Fail("oracle:thread-not-resumed", "continue-did-not-release",
					"thread %d is still reported as suspended at the same place after a continue command was addressed to it (the command was consumed, the thread was not released)", tid)
			}
			st.lastCont[tid] = st.progress[tid]
			st.conts[tid]++
			simrt.Count("fault_debug_cont_" + cmd)
			if tid == mainTid && mainTask != nil {
				if blocked, _ := mainTask.IsBlocked(); !blocked {
					// the window of the lost wake-up: reported suspended, not yet in Cond.Wait
					simrt.Count("cont_sent_before_thread_reached_wait")
				}
			}
			dbgCmd(dbg, prop, fmt.Sprintf("cont %d %s", tid, cmd))
		}
		if prop == "C16" && p.Garbage && simrt.ChooseP(0.3) {
			dbgCmd(dbg, prop, dbgGarbage(suspended))
		}
		if prop == "C16" && p.Garbage && len(suspended) > 0 && simrt.ChooseP(0.3) {
			// an expression that calls a function of the debugged program; only sent
			// when the evaluating (command) thread cannot itself hit a breakpoint,
			// because nobody else could resume it in this set-up
			simrt.Count("fault_debug_inject_calling_program_function")
			dbgCmd(dbg, prop, fmt.Sprintf("inject %d zz inc(dbl(2))", suspended[0]))
		}
		if mainDone.get() {
			break
		}
		if stopped && len(suspended) == 0 && simrt.OthersQuiescent() && len(dbgSuspended(dbg, prop)) == 0 {
			break // what is left of the program (threads were killed) cannot go on; that is expected
		}
		if len(suspended) == 0 && simrt.OthersQuiescent() {
			// nobody else can take a step and there is nothing to resume: check once more
			if len(dbgSuspended(dbg, prop)) == 0 && !mainDone.get() {
				idleRounds++
				if idleRounds >= 2 {
					simrt.Fail("oracle:thread-not-resumed", "lost-wakeup",
						"the program cannot make progress: no thread is reported suspended, yet every thread is blocked (a continue command sent to a thread reported as suspended was lost). blocked: %s",
						strings.Join(simrt.BlockedTasks(), "; "))
				}
			}
		} else {
			idleRounds = 0
		}
		simrt.Yield()
	}
	if stopped {
		for _, b := range simrt.BlockedTasks() {
			if strings.Contains(b, "waitForContinue") || strings.Contains(b, "ecalDebugger") {
				simrt.Fail("oracle:stop-threads", "stop-did-not-release", "after StopThreads a thread is still blocked inside the debugger: %s", b)
			}
		}
		dbgCmd(dbg, prop, "status") // the debugger must still answer
		if simrt.OthersQuiescent() {
			// a pool worker that was ended as a suspended sink thread is gone: the pool must
			// not count it any more (every live worker is blocked somewhere at this point)
			live := 0
			for _, b := range simrt.BlockedTasks() {
				if strings.Contains(b, "ThreadPool.SetWorkerCount)") {
					live++
				}
			}
			if n := erp.Processor.ThreadPool().WorkerCount(); n != live {
				simrt.Fail("oracle:stop-threads", "dead-worker-still-counted", "after StopThreads the pool counts %d worker(s), %d worker goroutine(s) are alive: %s", n, live, strings.Join(simrt.BlockedTasks(), "; "))
			}
			simrt.Count("worker_count_checked_after_stop")
		}
	}
	finished := false
	if prop == "C16" && p.Garbage && !stopped {
		// the host shuts the processor down (as a reload does) while a client keeps
		// asking for the lock / thread pool state
		finished = true
		finDone := &hbFlag{}
		simrt.Count("fault_processor_finish_during_commands")
		simrt.Go("finish", func() {
			erp.Processor.Finish()
			finDone.set()
		})
		for !finDone.get() {
			dbgCmd(dbg, prop, "lockstate")
			simrt.Yield()
		}
	}
	stopClients.set()
	clients.Wait()
	if prop == "C16" && p.Garbage {
		for i := 0; i < 3; i++ {
			dbgCmd(dbg, prop, dbgGarbage(nil)) // state "finished"
		}
	}
	dbg.StopThreads(0)
	if !stopped && !finished {
		erp.Processor.Finish()
	} // (after a mid-run stop pool workers may have been killed with tasks still queued: nothing to join)
	out.logs = logger.Slice()
	out.scope = vs.String()

	if prop == "C15" && !stopped && strings.HasSuffix(out.result, "| <nil>") {
		// every line that holds an item of a multi-line literal was arrived at by the thread
		// that evaluated the literal (a line the debugger never hears about cannot suspend)
		seen := map[int]bool{}
		for _, v := range st.visits[mainTid] {
			seen[v.line] = true
		}
		for _, l := range dbgItemLines(src) {
			if !seen[l] {
				simrt.Fail("oracle:suspension", "suspension/line-not-visited", "the main thread evaluated the list literal around line %d but never reported arriving at that line to the debugger (a breakpoint there cannot be honoured); lines reported: %v; result %s\n%s", l, keysInt(seen), out.result, src)
			}
		}
	}
	static := true
	for _, bp := range p.BPs {
		static = static && bp.When == 0
	}
	if prop == "C15" && !p.ResumeOnly && !p.Second && !stopped && static && len(p.BPs) > 0 {
		// (not with a second client: which visit a continue ended cannot be told from the
		// command counters when two clients address the same thread)
		// (e) whatever step commands were used: a thread that arrives at a top-level line
		// (no call entered) with an active breakpoint, coming from a different line,
		// suspends there. (Inside calls a thread that is being stepped over / out may pass
		// breakpoints on the pinned tree; that is not asserted.)
		active := map[int]bool{}
		for _, bp := range p.BPs {
			switch bp.Op {
			case "break":
				active[bp.Line] = true
			case "disablebreak":
				if _, ok := active[bp.Line]; ok {
					active[bp.Line] = false
				}
			case "rmbreak":
				delete(active, bp.Line)
			case "rmsource":
				for l := range active {
					if (l >= dbgLibBase) == (bp.Line >= dbgLibBase) {
						delete(active, l)
					}
				}
			}
		}
		vsits := st.visits[mainTid]
		for i, v := range vsits {
			if v.depth == 0 && active[v.line] && (i == 0 || vsits[i-1].line != v.line) && !v.suspended {
				simrt.Fail("oracle:suspension", "suspension/missed-at-top-level",
					"the main thread arrived at top-level line %d (active breakpoint, previous line %d) and did not suspend; breakpoints at %v; visits (line/depth, * = suspended): %s", v.line, func() int {
						if i == 0 {
							return 0
						}
						return vsits[i-1].line
					}(), keysInt(active), dbgVisitTrace(vsits, i)+"\n"+src)
			}
		}
		simrt.Count("top_level_breakpoint_traces_checked")
	}
	if prop == "C15" && p.ResumeOnly {
		// (c) suspensions are exactly the arrivals, from a different line, at lines
		// with an active breakpoint
		// reference model of the breakpoint commands: break -> active, disablebreak ->
		// present but inactive, rmbreak -> gone, rmbreak <source> -> all gone
		active := map[int]bool{}
		for _, bp := range p.BPs {
			switch bp.Op {
			case "break":
				active[bp.Line] = true
			case "disablebreak":
				active[bp.Line] = false
			case "rmbreak":
				delete(active, bp.Line)
			case "rmsource":
				// all breakpoints of that source, and only those
				for l := range active {
					if (l >= dbgLibBase) == (bp.Line >= dbgLibBase) {
						delete(active, l)
					}
				}
			}
		}
		var tids []uint64
		for tid := range st.visits {
			tids = append(tids, tid)
		}
		sort.Slice(tids, func(i, j int) bool { return tids[i] < tids[j] })
		for _, tid := range tids {
			vsits := st.visits[tid]
			for i, v := range vsits {
				want := active[v.line] && (i == 0 || vsits[i-1].line != v.line)
				if want != v.suspended {
					var ctx []string
					for j := i - 3; j <= i+1 && j < len(vsits); j++ {
						if j >= 0 {
							ctx = append(ctx, fmt.Sprintf("%d", vsits[j].line))
						}
					}
					kind := "suspension/missed"
					if v.suspended {
						kind = "suspension/unexpected"
					}
					simrt.Fail("oracle:suspension", kind, "thread %d, visit %d at line %d: suspended=%v, expected %v (breakpoints at %v, resume-only; lines around: %s)",
						tid, i, v.line, v.suspended, want, keysInt(active), strings.Join(ctx, ","))
				}
			}
		}
		simrt.Count("suspension_traces_checked")
	}
	return out
}

func keysInt(m map[int]bool) []int {
	var k []int
	for x := range m {
		k = append(k, x)
	}
	sort.Ints(k)
	return k
}

// dbgCmd sends one line to the command handler and applies the C16 oracle.
func dbgCmd(dbg util.ECALDebugger, prop, line string) interface{} {
	var res interface{}
	var err error
	func() {
		defer func() {
			if r := recover(); r != nil {
				if simrt.Failed() {
					panic(r)
				}
				held := simrt.HeldLocks()
				simrt.Fail("oracle:command-panic", "command-panic/"+firstWord(line), "debugger command %q panicked: %v (locks still held by the caller: %v)", line, r, held)
			}
		}()
		simrt.Note("debugger command %q", line)
		res, err = dbg.HandleInput(line)
	}()
	if held := simrt.HeldLocks(); len(held) > 0 {
		simrt.Fail("oracle:lock-left-held", "lock-held/"+firstWord(line), "debugger command %q returned with lock(s) still held: %v", line, held)
	}
	if err == nil && prop == "C16" {
		if _, jerr := json.Marshal(res); jerr != nil {
			simrt.Fail("oracle:not-json", "not-json/"+firstWord(line), "result of debugger command %q is not JSON-encodable: %v", line, jerr)
		}
	}
	return res
}

func firstWord(s string) string {
	f := strings.Fields(s)
	if len(f) == 0 {
		return ""
	}
	return f[0]
}

func dbgStatus(dbg util.ECALDebugger, prop string) map[string]map[string]interface{} {
	res := dbgCmd(dbg, prop, "status")
	m, ok := res.(map[string]interface{})
	if !ok {
		simrt.Fail("oracle:status", "status-shape", "status returned %T", res)
	}
	th, _ := m["threads"].(map[string]map[string]interface{})
	return th
}

func dbgSuspended(dbg util.ECALDebugger, prop string) []uint64 {
	var out []uint64
	for k, v := range dbgStatus(dbg, prop) {
		if r, ok := v["threadRunning"].(bool); ok && !r {
			var tid uint64
			fmt.Sscan(k, &tid)
			out = append(out, tid)
		}
	}
	sort.Slice(out, func(i, j int) bool { return out[i] < out[j] })
	return out
}

// dbgCallIsSafe: no active breakpoint inside inc/dbl (lines 1-7) and
// break-on-start not armed.
func dbgCallIsSafe(dbg util.ECALDebugger) bool {
	m, _ := dbgCmd(dbg, "C16", "status").(map[string]interface{})
	if m == nil {
		return false
	}
	if b, _ := m["breakonstart"].(bool); b {
		return false
	}
	bps, _ := m["breakpoints"].(map[string]bool)
	for k, active := range bps {
		if !active {
			continue
		}
		var line int
		if n, _ := fmt.Sscanf(k, "c15:%d", &line); n == 1 && line <= 7 {
			return false
		}
	}
	return true
}

func dbgCallStack(dbg util.ECALDebugger, tid uint64) []string {
	for k, v := range dbgStatus(dbg, "C15") {
		if k == fmt.Sprint(tid) {
			cs, _ := v["callStack"].([]string)
			return cs
		}
	}
	return nil
}

// dbgPlausible produces a well-formed command aimed at the state the program is
// in: existing variables (with in- and out-of-range container paths), suspended
// thread ids, expressions.
func dbgPlausible(p *dbgPlan, suspended []uint64) string {
	simrt.Count("fault_debug_plausible_command")
	tid := "1"
	if len(suspended) > 0 {
		tid = fmt.Sprint(suspended[simrt.Choose(len(suspended))])
	}
	var vars []string
	for i, k := range p.Blocks {
		switch k {
		case "zoo":
			vars = append(vars, fmt.Sprintf("zl%d", i), fmt.Sprintf("zl%d.0", i), fmt.Sprintf("zl%d.-1", i), fmt.Sprintf("zl%d.-5", i), fmt.Sprintf("zl%d.7", i),
				fmt.Sprintf("zl%d.1.-4", i), fmt.Sprintf("zl%d.-4.a", i), fmt.Sprintf("zl%d.-6.0", i), fmt.Sprintf("zl%d.1.-3.x", i), fmt.Sprintf("zm%d.k.-2.z", i), fmt.Sprintf("zl%d.2.a", i), fmt.Sprintf("zl%d.x", i), fmt.Sprintf("zm%d.k.0", i), fmt.Sprintf("zm%d.k.-3", i), fmt.Sprintf("zm%d.1", i), fmt.Sprintf("zinf%d", i), fmt.Sprintf("zinf%d.a", i))
		case "straight":
			vars = append(vars, fmt.Sprintf("v%d", i), fmt.Sprintf("v%d.0", i))
		case "chain":
			vars = append(vars, fmt.Sprintf("obj%d", i), fmt.Sprintf("obj%d.mk", i), fmt.Sprintf("res%d", i))
		case "errdata":
			vars = append(vars, "loc", "loc.-3", "loc.1.2", "loc.1.9")
		}
	}
	// (variables that steer loops / recursion of the program - a, b, i, acc - are never
	// targets: injecting into them legitimately changes what the program does, e.g.
	// makes a recursion endless, which is the user's doing, not the debugger's)
	if len(vars) == 0 {
		vars = []string{"zz"}
	}
	v := vars[simrt.Choose(len(vars))]
	exprs := []string{"1", "[1, 2]", "{1: 2}", "\"s\"", "null", "1 / 0", "[1, [2]]", "len([1])", "x x", "1 +"}
	names := []string{"x1", "zz", "yy2"}
	switch simrt.Choose(6) {
	case 0:
		return fmt.Sprintf("inject %s %s %s", tid, v, exprs[simrt.Choose(len(exprs))])
	case 1:
		return fmt.Sprintf("extract %s %s %s", tid, strings.SplitN(v, ".", 2)[0], names[simrt.Choose(len(names))])
	case 2:
		return fmt.Sprintf("describe %s", tid)
	case 3:
		return "lockstate"
	case 4:
		return fmt.Sprintf("inject %s %s %s", tid, names[simrt.Choose(len(names))], exprs[simrt.Choose(len(exprs))])
	default:
		return fmt.Sprintf("describe %s", tid)
	}
}

// dbgGarbage produces an arbitrary command line (C16).
func dbgGarbage(suspended []uint64) string {
	words := []string{"breakonstart", "break", "rmbreak", "disablebreak", "cont", "describe", "status", "extract", "inject", "lockstate", "foo", ""}
	args := []string{"1", "2", "3", "999", "-1", "0", "9223372036854775807", "9223372036854775808", "c15", "c15:1", "c15:2", "nosuch:3", "a:b:c", "x:-1", "c15:",
		":", "v0", "total", "b", "1+1", "{\"a\":1}", "len([1])", "zl0", "zl0.-5", "zl0.-1", "zl0.9", "zl0.1.-3", "zl0.-4.a", "zl0.-5.1", "zl1.1.-3.x", "zm0.k.-2.z", "zm0.k.3", "zm0.k.-2", "zm0.x.y", "zl1.2.a", "loc.-3", "loc.1.2", "a.b", "zinf0", "[1,2]", "{1:2}", "resume", "stepin", "stepover", "stepout", "kill", "%$#", "true", "false", "{{", "raise(1)"}
	for _, t := range suspended {
		args = append(args, fmt.Sprint(t), fmt.Sprint(t), fmt.Sprint(t))
	}
	w := words[simrt.Choose(len(words))]
	n := simrt.Choose(5)
	parts := []string{w}
	for i := 0; i < n; i++ {
		parts = append(parts, args[simrt.Choose(len(args))])
	}
	simrt.Count("fault_debug_arbitrary_command")
	return strings.Join(parts, " ")
}

func dbgRun(p *dbgPlan, prop string) {
	if p.CLI != nil {
		cliRun(p, prop)
		return
	}

	src, sinks := dbgProgram(p)
	plain := dbgExec(p, src, false, prop)
	if strings.HasSuffix(plain.result, "| <nil>") {
		simrt.Count("program_ended_normally")
	} else {
		simrt.Count("program_ended_with_error")
		simrt.Note("plain run ended with %s", plain.result)
	}
	dbgd := dbgExec(p, src, true, prop)
	if prop != "C15" || p.StopAtRound > 0 {
		return // (a run whose threads were stopped is not compared with the plain run)
	}
	if plain.result != dbgd.result {
		simrt.Fail("oracle:transparency", "transparency/result", "result differs: plain %q, debugged %q\n%s", plain.result, dbgd.result, src)
	}
	a, b := append([]string(nil), plain.logs...), append([]string(nil), dbgd.logs...)
	if sinks {
		sort.Strings(a)
		sort.Strings(b)
	}
	if strings.Join(a, "\n") != strings.Join(b, "\n") {
		simrt.Fail("oracle:transparency", "transparency/log", "log output differs.\n--- plain:\n%s\n--- debugged:\n%s\n--- program:\n%s", strings.Join(a, "\n"), strings.Join(b, "\n"), src)
	}
	if plain.scope != dbgd.scope {
		simrt.Fail("oracle:transparency", "transparency/variables", "final variables differ.\n--- plain:\n%s\n--- debugged:\n%s\n--- program:\n%s", plain.scope, dbgd.scope, src)
	}
}

func dbgVisitTrace(v []dbgVisit, upto int) string {
	var b strings.Builder
	from := upto - 40
	if from < 0 {
		from = 0
	}
	for i := from; i <= upto && i < len(v); i++ {
		fmt.Fprintf(&b, "%d/%d", v[i].line, v[i].depth)
		if v[i].suspended {
			b.WriteString("*")
		}
		b.WriteString(" ")
	}
	return b.String()
}
