package main

import (
	"fmt"
	"reflect"
	"strings"

	"github.com/krotik/ecal/interpreter"
	"github.com/krotik/ecal/parser"
	"simrt"
	"simrt/simsync"
)

// C13 — parsing is a pure, re-entrant function of its input.

type c13Op struct {
	Kind string `json:"kind"`           // parse | eval | print | evalshared (a tree parsed once, evaluated by several tasks)
	Text int    `json:"text"`           // index into the corpus
	Name int    `json:"name,omitempty"` // >0: the call passes this input name instead of the plan's default for the text
}

type c13Plan struct {
	RefAfter bool              `json:"reference_after,omitempty"` // the sequential reference results are computed after the concurrent phase
	Corpus   []string          `json:"corpus"`
	Files    map[string]string `json:"files,omitempty"`
	Shared   bool              `json:"shared_provider"`
	Tasks    [][]c13Op         `json:"tasks"`
	Names    bool              `json:"names_per_text,omitempty"` // every corpus text is parsed under its own input name (else all under one name)
}

func (p *c13Plan) nameFor(op c13Op) string {
	if op.Name > 0 {
		return fmt.Sprintf("c13n%d", op.Name)
	}
	return p.nameOf(op.Text)
}

func (p *c13Plan) nameOf(text int) string {
	if p.Names {
		return fmt.Sprintf("c13t%d", text)
	}
	return "c13"
}

// c13Errs: error values returned by the calls of the concurrent phase together with
// their text at the moment of return (an error is a value: it must not change later).
type c13KeptErr struct {
	err  error
	text string
	op   c13Op
}

var c13Errs *[]c13KeptErr

// trees shared by the tasks of the concurrent phase (op kind evalshared)
var c13Shared map[int]*parser.ASTNode
var c13SharedErp *interpreter.ECALRuntimeProvider

func init() {
	register(&Workload{ID: "C13", Gen: c13Gen, New: func() interface{} { return &c13Plan{} },
		Run: func(p interface{}) { c13Run(p.(*c13Plan)) }, Shrink: c13Shrink, Budget: 8_000_000, HB: true})
}

func c13Stmt(r *simrt.RNG, depth int) string {
	n := r.Intn(9)
	if r.Bool(0.3) {
		n = 1000 + r.Intn(1000000) // identifiers this process has most likely never seen
	}
	a, b := 1+r.Intn(5), 1+r.Intn(5)
	switch r.Intn(17) {
	case 16:
		// comments are part of the tree (meta data of the node they stand next to)
		return fmt.Sprintf("# pre %d-%d\ncm%d := %d /* post %d-%d */", n, a, n, a, n, b)
	case 15:
		// the same constant text in both quote styles: an escaped double quote is fine between
		// double quotes and a lexical error between single quotes
		if r.Bool(0.3) {
			return fmt.Sprintf("qs%d := \"x%d\\\"y\"", n, a%2)
		}
		if r.Bool(0.5) {
			return fmt.Sprintf("qs%d := 'x%d\\\"y'", n, a%2)
		}
		// a single-quoted constant with a plain double quote inside and a payload of its own
		return fmt.Sprintf("qt%d := 'p%d\"q%d-%d-%d'", n, n, a, b, n*7+a)
	case 14:
		return fmt.Sprintf("import \"lib.ecal\" as lb%d\nu%d := lb%d.pair[0] + lb%d.twice(%d)", n, n, n, n, a)
	case 13:
		// a loop whose number of iterations shows in the result
		return fmt.Sprintf("w%d := 0\nfor i in range(1, %d) {\n    w%d := w%d + i\n}\nw%d", n, a+1, n, n, n)
	case 12:
		return fmt.Sprintf("mutex mx%d {\n    g%d := %d\n}", n%5, n, a)
	case 0:
		return fmt.Sprintf("a%d := {\"x\": %d, \"y\": [%d, %d]}", n, a, a, b)
	case 1:
		return fmt.Sprintf("if %d < %d {\n    b%d := {\"k\": %d}\n} elif %d == %d {\n    b%d := %d\n} else {\n    b%d := [%d]\n}", a, b, n, a, a, b, n, b, n, a)
	case 2:
		return fmt.Sprintf("for i in range(1, %d) {\n    m%d := {\"i\": i}\n}", a, n)
	case 3:
		return fmt.Sprintf("s%d := \"v={{%d+%d}} w={{ {\\\"a\\\": %d}.a }}\"", n, a, b, a)
	case 4:
		return fmt.Sprintf("c%d := %d\nfor c%d > 0 {\n    c%d := c%d - 1\n}", n, a, n, n, n)
	case 5:
		return fmt.Sprintf("func f%d(x, y=%d) {\n    if x > y {\n        return {\"r\": x}\n    }\n    return {\"r\": y}\n}\nr%d := f%d(%d)", n, a, n, n, b)
	case 6:
		return fmt.Sprintf("import \"lib.ecal\" as lib%d\nq%d := lib%d.twice(%d)", n, n, n, a)
	case 7:
		return fmt.Sprintf("try {\n    raise(\"E%d\", \"x\", {\"d\": %d})\n} except \"E%d\" as e {\n    t%d := e.data\n}", a, b, a, n)
	case 8:
		return fmt.Sprintf("l%d := [{\"a\": %d}, {\"b\": [%d, {\"c\": %d}]}]", n, a, b, a)
	case 9:
		return fmt.Sprintf("if {\"z\": %d}.z == %d {\n    z%d := %d\n}", a, a, n, b)
	case 10:
		if depth < 2 {
			return fmt.Sprintf("if %d >= %d {\n%s\n}", a, b, indent(c13Stmt(r, depth+1), "    "))
		}
		return fmt.Sprintf("d%d := %d * %d", n, a, b)
	default:
		return fmt.Sprintf("k%d := \"{{ %d * %d }}\"", n, a, b)
	}
}

func c13Deep(r *simrt.RNG) string {
	d := 60 + r.Intn(500)
	switch r.Intn(4) {
	case 0:
		return "deep := " + strings.Repeat("(", d) + "1" + strings.Repeat(")", d)
	case 1:
		return "deep := " + strings.Repeat("[", d) + "1" + strings.Repeat("]", d)
	case 2:
		return "deep := " + strings.Repeat("{\"a\": ", d) + "1" + strings.Repeat("}", d)
	default:
		// (evaluating a nested operator chain is super-linear in ECAL itself: keep it short)
		d = 20 + d%60
		return "deep := " + strings.Repeat("1 + (", d) + "1" + strings.Repeat(")", d)
	}
}

func c13Text(r *simrt.RNG) string {
	if r.Bool(0.12) {
		return c13Deep(r)
	}
	n := 1 + r.Intn(4)
	var parts []string
	for i := 0; i < n; i++ {
		parts = append(parts, strings.TrimRight(c13Stmt(r, 0), "\n"))
	}
	t := strings.Join(parts, "\n")
	if r.Bool(0.1) {
		// truncated text: the parser runs out of tokens
		fields := strings.Fields(t)
		if len(fields) > 1 {
			return strings.Join(fields[:1+r.Intn(len(fields)-1)], " ")
		}
		return ""
	}
	if r.Bool(0.2) {
		// invalid text: drop or duplicate a token-ish fragment
		fields := strings.Fields(t)
		if len(fields) > 2 {
			i := r.Intn(len(fields))
			if r.Bool(0.5) {
				fields = append(fields[:i], fields[i+1:]...)
			} else {
				fields = append(fields[:i+1], fields[i:]...)
			}
			t = strings.Join(fields, " ")
		}
	}
	return t
}

func c13Gen(r *simrt.RNG, tier string) interface{} {
	p := &c13Plan{Shared: r.Bool(0.5), RefAfter: r.Bool(0.4), Names: r.Bool(0.5)}
	p.Files = map[string]string{"lib.ecal": "func twice(x) {\n    if x > 0 {\n        let m := {\"v\": x * 2}\n        return m.v\n    }\n    return 0\n}\n[pa, pb] := [1, 2]\nlet [pc, pd] := [pa + 1, pb + 1]\npair := [pc, pd]\nmm := {\"a\": 1, \"b\": 2}\nfor [k, v] in mm {\n    pair := [pair[0] + v, pair[1]]\n}\n"}
	nt := 3 + r.Intn(6)
	for i := 0; i < nt; i++ {
		p.Corpus = append(p.Corpus, c13Text(r))
	}
	tasks := 2 + r.Intn(3)
	if r.Bool(0.2) {
		tasks = 2 + r.Intn(7)
	}
	if tier == "thorough" && r.Bool(0.1) {
		tasks = 2 + r.Intn(15)
	}
	for t := 0; t < tasks; t++ {
		var ops []c13Op
		n := 1 + r.Intn(4)
		for i := 0; i < n; i++ {
			k := "parse"
			if r.Bool(0.5) {
				k = "eval"
			} else if r.Bool(0.3) {
				k = "print" // parse + pretty print (the printer's templates are process-wide)
			}
			op := c13Op{Kind: k, Text: r.Intn(len(p.Corpus))}
			if r.Bool(0.15) {
				op.Name = 1 + r.Intn(3) // the same text under another input name
			}
			if k == "eval" && r.Bool(0.25) {
				op.Kind, op.Name = "evalshared", 0
			}
			ops = append(ops, op)
		}
		p.Tasks = append(p.Tasks, ops)
	}
	if r.Bool(0.15) {
		// every task starts by evaluating the same shared tree (its first evaluation ever
		// happens on several threads at once)
		t := r.Intn(len(p.Corpus))
		for k, txt := range p.Corpus {
			// (prefer a text whose evaluation keeps per-call state: loops, interpolation)
			if (strings.Contains(txt, "range(") || strings.Contains(txt, "{{") || strings.Contains(txt, "import ")) && len(txt) < 400 && r.Bool(0.5) {
				t = k
			}
		}
		for i := range p.Tasks {
			p.Tasks[i] = append([]c13Op{{Kind: "evalshared", Text: t}}, p.Tasks[i]...)
		}
	}
	return p
}

func c13Shrink(pi interface{}) []interface{} {
	p := pi.(*c13Plan)
	var out []interface{}
	clone := func() *c13Plan {
		q := *p
		q.Corpus = append([]string(nil), p.Corpus...)
		q.Tasks = nil
		for _, t := range p.Tasks {
			q.Tasks = append(q.Tasks, append([]c13Op(nil), t...))
		}
		return &q
	}
	for i := range p.Tasks {
		if len(p.Tasks) > 2 {
			q := clone()
			q.Tasks = append(q.Tasks[:i], q.Tasks[i+1:]...)
			out = append(out, q)
		}
		for j := range p.Tasks[i] {
			if len(p.Tasks[i]) > 1 {
				q := clone()
				q.Tasks[i] = append(q.Tasks[i][:j], q.Tasks[i][j+1:]...)
				out = append(out, q)
			}
			if p.Tasks[i][j].Kind == "eval" {
				q := clone()
				q.Tasks[i][j].Kind = "parse"
				out = append(out, q)
			}
		}
	}
	// shorten corpus texts line by line
	for i, t := range p.Corpus {
		lines := strings.Split(t, "\n")
		if len(lines) > 1 {
			for k := range lines {
				q := clone()
				q.Corpus[i] = strings.Join(append(append([]string(nil), lines[:k]...), lines[k+1:]...), "\n")
				out = append(out, q)
			}
		}
	}
	if p.Shared {
		q := clone()
		q.Shared = false
		out = append(out, q)
	}
	return out
}

func c13Do(op c13Op, p *c13Plan, erp *interpreter.ECALRuntimeProvider) (result string) {
	// a crash that depends only on the text (e.g. evaluating a malformed map
	// literal) is part of the call's result here: it must be the same crash alone
	// and concurrently; input-dependent crashes are C06/C07's subject
	defer func() {
		if r := recover(); r != nil {
			if simrt.Failed() {
				panic(r)
			}
			result = fmt.Sprintf("panic: %v", r)
		}
	}()
	text := p.Corpus[op.Text]
	if op.Kind == "print" {
		ast, err := parser.Parse(p.nameFor(op), text)
		if err != nil {
			return "error: " + err.Error()
		}
		if len(text) > 500 {
			return "tree: " + c13Digest(ast) // (printing a very deep tree is slow under instrumentation)
		}
		out, err := parser.PrettyPrint(ast)
		if err != nil {
			return "print-error: " + err.Error()
		}
		return "printed: " + out
	}
	if op.Kind == "parse" {
		ast, err := parser.Parse(p.nameFor(op), text)
		if (ast == nil) == (err == nil) {
			return fmt.Sprintf("BOTH-OR-NEITHER tree=%v err=%v", ast != nil, err)
		}
		if err != nil {
			if c13Errs != nil {
				*c13Errs = append(*c13Errs, c13KeptErr{err, err.Error(), op})
			}
			return "error: " + err.Error()
		}
		c13CheckSource(ast, p.nameFor(op), text)
		return "tree: " + c13Digest(ast)
	}
	if op.Kind == "evalshared" {
		// the tree was parsed and validated once, before the concurrent phase (nil: the
		// text does not parse); every task evaluates it in a scope of its own
		ast := c13Shared[op.Text]
		if ast == nil {
			op.Kind = "eval"
			return c13Do(op, p, erp)
		}
		res, err := ast.Runtime.Eval(newGlobalScope(), make(map[string]interface{}), c13SharedErp.NewThreadID())
		if err != nil {
			return "eval-error: " + err.Error()
		}
		return "value: " + fmt.Sprint(res)
	}
	ast, err := parser.ParseWithRuntime(p.nameFor(op), text, erp)
	if err != nil {
		if c13Errs != nil {
			*c13Errs = append(*c13Errs, c13KeptErr{err, err.Error(), op})
		}
		return "eval-error: " + err.Error()
	}
	c13CheckSource(ast, p.nameFor(op), text)
	if c13Keep != nil {
		*c13Keep = append(*c13Keep, ast)
	}
	if err := ast.Runtime.Validate(); err != nil {
		return "eval-error: " + err.Error()
	}
	res, err := ast.Runtime.Eval(newGlobalScope(), make(map[string]interface{}), erp.NewThreadID())
	if err != nil {
		return "eval-error: " + err.Error()
	}
	return "value: " + fmt.Sprint(res)
}

// c13CheckSource: every token of a tree carries the input name its parse was given.
func c13CheckSource(n *parser.ASTNode, name string, text string) {
	if n == nil {
		return
	}
	if n.Token != nil && n.Token.Lsource != name {
		simrt.Fail("oracle:parse-not-reentrant", "foreign-source-label",
			"a token (%q, line %d) of the tree returned for input name %q carries the source label %q.\n--- text:\n%s", n.Token.Val, n.Token.Lline, name, n.Token.Lsource, clip(text))
	}
	for _, c := range n.Children {
		c13CheckSource(c, name, text)
	}
}

// c13Digest renders a tree compactly (kind, token value, children) without going
// through the instrumented pretty printer (deep trees make that quadratic).
func c13Digest(n *parser.ASTNode) string {
	var b strings.Builder
	var h uint64 = 1469598103934665603
	nodes := 0
	var walk func(n *parser.ASTNode, depth int)
	walk = func(n *parser.ASTNode, depth int) {
		if n == nil {
			b.WriteString("<nil>")
			return
		}
		nodes++
		val := ""
		if n.Token != nil {
			val = n.Token.Val
		}
		for _, c := range n.Name + "\x00" + val + "\x01" {
			h = (h ^ uint64(c)) * 1099511628211
		}
		for _, md := range n.Meta {
			for _, c := range md.Type() + "\x02" + md.Value() + "\x03" {
				h = (h ^ uint64(c)) * 1099511628211
			}
		}
		h = (h ^ uint64(len(n.Children)+depth*31)) * 1099511628211
		if b.Len() < 600 {
			fmt.Fprintf(&b, "%s", n.Name)
			if val != "" && val != n.Name {
				fmt.Fprintf(&b, "=%q", val)
			}
			if len(n.Children) > 0 {
				b.WriteString("(")
			}
		}
		for i, c := range n.Children {
			if i > 0 && b.Len() < 600 {
				b.WriteString(" ")
			}
			walk(c, depth+1)
		}
		if len(n.Children) > 0 && b.Len() < 600 {
			b.WriteString(")")
		}
	}
	walk(n, 0)
	return fmt.Sprintf("%d nodes, digest %016x: %s", nodes, h, b.String())
}

// c13Keep collects the trees built with a runtime provider during the concurrent
// phase (their runtime components must have process-wide unique ids).
var c13Keep *[]*parser.ASTNode

// instanceID reads the unexported id of a runtime component through reflection
// ("" if the field cannot be found: then nothing is asserted).
func instanceID(rt interface{}) string {
	var find func(v reflect.Value, depth int) string
	find = func(v reflect.Value, depth int) string {
		for v.Kind() == reflect.Ptr || v.Kind() == reflect.Interface {
			if v.IsNil() {
				return ""
			}
			v = v.Elem()
		}
		if v.Kind() != reflect.Struct || depth > 4 {
			return ""
		}
		if f := v.FieldByName("instanceID"); f.IsValid() && f.Kind() == reflect.String {
			return f.String()
		}
		for i := 0; i < v.NumField(); i++ {
			if v.Type().Field(i).Anonymous {
				if id := find(v.Field(i), depth+1); id != "" {
					return id
				}
			}
		}
		return ""
	}
	return find(reflect.ValueOf(rt), 0)
}

func c13CheckIDs(asts []*parser.ASTNode) {
	seen := map[string]string{}
	var walk func(n *parser.ASTNode, where string)
	walk = func(n *parser.ASTNode, where string) {
		if n == nil {
			return
		}
		if n.Runtime != nil {
			if id := instanceID(n.Runtime); id == "" {
				simrt.Count("instance_id_unreadable")
			} else {
				simrt.Count("instance_ids_checked")
				if prev, dup := seen[id]; dup {
					simrt.Fail("oracle:runtime-component-id", "duplicate-instance-id",
						"two runtime components built by concurrent parses carry the same instance id %s (%s and %s node %s)", id, prev, where, n.Name)
				}
				seen[id] = where + "/" + n.Name
			}
		}
		for _, c := range n.Children {
			walk(c, where)
		}
	}
	for i, a := range asts {
		walk(a, fmt.Sprintf("tree%d", i))
	}
}

func c13Run(p *c13Plan) {

	mk := func() *interpreter.ECALRuntimeProvider {
		erp, _ := newProvider(1, p.Files)
		return erp
	}
	refErp := mk()
	// reference: every call executed alone (before any other task exists)
	ref := map[c13Op]string{}
	computeRef := func() {
		for _, ops := range p.Tasks {
			for _, op := range ops {
				if _, ok := ref[op]; !ok {
					alone := op
					if op.Kind == "evalshared" {
						alone.Kind = "eval" // reference: a tree of its own, parsed and evaluated alone
					}
					ref[op] = c13Do(alone, p, refErp)
					simrt.Count("reference_" + strings.SplitN(ref[op], ":", 2)[0])
				}
			}
		}
	}
	c13Shared, c13SharedErp = map[int]*parser.ASTNode{}, mk()
	defer func() { c13Shared, c13SharedErp = nil, nil }()
	for _, ops := range p.Tasks {
		for _, op := range ops {
			if op.Kind == "evalshared" && c13Shared[op.Text] == nil {
				if ast, err := parser.ParseWithRuntime(p.nameOf(op.Text), p.Corpus[op.Text], c13SharedErp); err == nil && ast.Runtime.Validate() == nil {
					c13Shared[op.Text] = ast
					simrt.Count("reach_shared_tree")
				}
			}
		}
	}
	if !p.RefAfter {
		computeRef()
	}
	var shared *interpreter.ECALRuntimeProvider
	if p.Shared {
		shared = mk()
	}
	erps := make([]*interpreter.ECALRuntimeProvider, len(p.Tasks))
	for i := range p.Tasks {
		if p.Shared {
			erps[i] = shared
		} else {
			erps[i] = mk()
		}
	}
	results := make([][]string, len(p.Tasks))
	for i := range results {
		results[i] = make([]string, len(p.Tasks[i]))
	}
	var kept []*parser.ASTNode
	c13Keep = &kept
	var keptErrs []c13KeptErr
	c13Errs = &keptErrs
	defer func() { c13Keep, c13Errs = nil, nil }()
	var wg simsync.WaitGroup
	for ti, ops := range p.Tasks {
		ti, ops := ti, ops
		wg.Add(1)
		simrt.Go(fmt.Sprintf("parser%d", ti), func() {
			defer wg.Done()
			for oi, op := range ops {
				got := c13Do(op, p, erps[ti])
				if p.RefAfter {
					results[ti][oi] = got
					continue
				}
				if got != ref[op] {
					kind := "result-differs/" + op.Kind
					simrt.Fail("oracle:parse-not-reentrant", kind,
						"%s of corpus text %d gave a different result when run concurrently.\n--- text:\n%s\n--- alone:\n%s\n--- concurrent (task %d):\n%s",
						op.Kind, op.Text, p.Corpus[op.Text], clip(ref[op]), ti, clip(got))
				}
			}
		})
	}
	wg.Wait()
	c13Keep, c13Errs = nil, nil
	c13CheckIDs(kept)
	for _, ke := range keptErrs {
		if now := ke.err.Error(); now != ke.text {
			simrt.Fail("oracle:parse-not-reentrant", "error-value-changed",
				"the error returned for corpus text %d (%s) changed after the call had returned.\n--- text:\n%s\n--- when returned:\n%s\n--- at the end of the concurrent phase:\n%s",
				ke.op.Text, ke.op.Kind, p.Corpus[ke.op.Text], clip(ke.text), clip(now))
		}
	}
	if p.RefAfter {
		// the same calls executed alone, afterwards (texts with identifiers the process
		// has never lexed are thus met first by the concurrent phase)
		computeRef()
		for ti, ops := range p.Tasks {
			for oi, op := range ops {
				if results[ti][oi] != ref[op] {
					simrt.Fail("oracle:parse-not-reentrant", "result-differs/"+op.Kind,
						"%s of corpus text %d gave a different result when run concurrently.\n--- text:\n%s\n--- alone (afterwards):\n%s\n--- concurrent (task %d):\n%s",
						op.Kind, op.Text, p.Corpus[op.Text], clip(ref[op]), ti, clip(results[ti][oi]))
				}
			}
		}
	}
	// afterwards the grammar must still be intact: parse everything once more
	again := map[c13Op]bool{}
	var order []c13Op
	for _, ops := range p.Tasks {
		for _, op := range ops {
			if !again[op] {
				again[op] = true
				order = append(order, op)
			}
		}
	}
	for _, op := range order {
		want := ref[op]
		if op.Kind != "parse" {
			continue
		}
		if got := c13Do(op, p, refErp); got != want {
			simrt.Fail("oracle:parse-not-reentrant", "grammar-corrupted-afterwards",
				"after the concurrent phase, parsing corpus text %d alone gives a different result than before.\n--- text:\n%s\n--- before:\n%s\n--- after:\n%s",
				op.Text, p.Corpus[op.Text], clip(want), clip(got))
		}
	}
}

func clip(s string) string {
	if len(s) > 700 {
		return s[:700] + "..."
	}
	return s
}
