package main

import (
	"fmt"
	"strings"

	"github.com/krotik/ecal/interpreter"
	"github.com/krotik/ecal/parser"
	"simrt"
	"simrt/simsync"
)

// C13 — parsing is a pure, re-entrant function of its input.

type c13Op struct {
	Kind string `json:"kind"` // parse | eval
	Text int    `json:"text"` // index into the corpus
}

type c13Plan struct {
	Corpus []string          `json:"corpus"`
	Files  map[string]string `json:"files,omitempty"`
	Shared bool              `json:"shared_provider"`
	Tasks  [][]c13Op         `json:"tasks"`
}

func init() {
	register(&Workload{ID: "C13", Gen: c13Gen, New: func() interface{} { return &c13Plan{} },
		Run: func(p interface{}) { c13Run(p.(*c13Plan)) }, Shrink: c13Shrink, Budget: 8_000_000, HB: true})
}

func c13Stmt(r *simrt.RNG, depth int) string {
	n := r.Intn(9)
	a, b := 1+r.Intn(5), 1+r.Intn(5)
	switch r.Intn(12) {
	case 0:
		return fmt.Sprintf("a%d := {\"x\": %d, \"y\": [%d, %d]}", n, a, a, b)
	case 1:
		return fmt.Sprintf("if %d < %d {\n    b%d := {\"k\": %d}\n} elif %d == %d {\n    b%d := %d\n} else {\n    b%d := [%d]\n}", a, b, n, a, a, b, n, b, n, a)
	case 2:
		return fmt.Sprintf("for i in range(1, %d) {\n    m%d := {\"i\": i}\n}", a, n)
	case 3:
		return fmt.Sprintf("s%d := \"v={{%d+%d}} w={{ {\\\"a\\\": %d}.a }}\"", n, a, b, a)
	case 4:
		return fmt.Sprintf("c%d := %d\nfor c%d > 0 {\n    c%d := c%d - 1\n}", n, a, n, n, n)
	case 5:
		return fmt.Sprintf("func f%d(x, y=%d) {\n    if x > y {\n        return {\"r\": x}\n    }\n    return {\"r\": y}\n}\nr%d := f%d(%d)", n, a, n, n, b)
	case 6:
		return fmt.Sprintf("import \"lib.ecal\" as lib%d\nq%d := lib%d.twice(%d)", n, n, n, a)
	case 7:
		return fmt.Sprintf("try {\n    raise(\"E%d\", \"x\", {\"d\": %d})\n} except \"E%d\" as e {\n    t%d := e.data\n}", a, b, a, n)
	case 8:
		return fmt.Sprintf("l%d := [{\"a\": %d}, {\"b\": [%d, {\"c\": %d}]}]", n, a, b, a)
	case 9:
		return fmt.Sprintf("if {\"z\": %d}.z == %d {\n    z%d := %d\n}", a, a, n, b)
	case 10:
		if depth < 2 {
			return fmt.Sprintf("if %d >= %d {\n%s\n}", a, b, indent(c13Stmt(r, depth+1), "    "))
		}
		return fmt.Sprintf("d%d := %d * %d", n, a, b)
	default:
		return fmt.Sprintf("k%d := \"{{ %d * %d }}\"", n, a, b)
	}
}

func c13Text(r *simrt.RNG) string {
	n := 1 + r.Intn(4)
	var parts []string
	for i := 0; i < n; i++ {
		parts = append(parts, strings.TrimRight(c13Stmt(r, 0), "\n"))
	}
	t := strings.Join(parts, "\n")
	if r.Bool(0.2) {
		// invalid text: drop or duplicate a token-ish fragment
		fields := strings.Fields(t)
		if len(fields) > 2 {
			i := r.Intn(len(fields))
			if r.Bool(0.5) {
				fields = append(fields[:i], fields[i+1:]...)
			} else {
				fields = append(fields[:i+1], fields[i:]...)
			}
			t = strings.Join(fields, " ")
		}
	}
	return t
}

func c13Gen(r *simrt.RNG, tier string) interface{} {
	p := &c13Plan{Shared: r.Bool(0.5)}
	p.Files = map[string]string{"lib.ecal": "func twice(x) {\n    if x > 0 {\n        return {\"v\": x * 2}.v\n    }\n    return 0\n}\n"}
	nt := 3 + r.Intn(6)
	for i := 0; i < nt; i++ {
		p.Corpus = append(p.Corpus, c13Text(r))
	}
	tasks := 2 + r.Intn(3)
	if r.Bool(0.2) {
		tasks = 2 + r.Intn(7)
	}
	if tier == "thorough" && r.Bool(0.1) {
		tasks = 2 + r.Intn(15)
	}
	for t := 0; t < tasks; t++ {
		var ops []c13Op
		n := 1 + r.Intn(4)
		for i := 0; i < n; i++ {
			k := "parse"
			if r.Bool(0.5) {
				k = "eval"
			}
			ops = append(ops, c13Op{k, r.Intn(len(p.Corpus))})
		}
		p.Tasks = append(p.Tasks, ops)
	}
	return p
}

func c13Shrink(pi interface{}) []interface{} {
	p := pi.(*c13Plan)
	var out []interface{}
	clone := func() *c13Plan {
		q := *p
		q.Corpus = append([]string(nil), p.Corpus...)
		q.Tasks = nil
		for _, t := range p.Tasks {
			q.Tasks = append(q.Tasks, append([]c13Op(nil), t...))
		}
		return &q
	}
	for i := range p.Tasks {
		if len(p.Tasks) > 2 {
			q := clone()
			q.Tasks = append(q.Tasks[:i], q.Tasks[i+1:]...)
			out = append(out, q)
		}
		for j := range p.Tasks[i] {
			if len(p.Tasks[i]) > 1 {
				q := clone()
				q.Tasks[i] = append(q.Tasks[i][:j], q.Tasks[i][j+1:]...)
				out = append(out, q)
			}
			if p.Tasks[i][j].Kind == "eval" {
				q := clone()
				q.Tasks[i][j].Kind = "parse"
				out = append(out, q)
			}
		}
	}
	// shorten corpus texts line by line
	for i, t := range p.Corpus {
		lines := strings.Split(t, "\n")
		if len(lines) > 1 {
			for k := range lines {
				q := clone()
				q.Corpus[i] = strings.Join(append(append([]string(nil), lines[:k]...), lines[k+1:]...), "\n")
				out = append(out, q)
			}
		}
	}
	if p.Shared {
		q := clone()
		q.Shared = false
		out = append(out, q)
	}
	return out
}

func c13Do(op c13Op, p *c13Plan, erp *interpreter.ECALRuntimeProvider) (result string) {
	// a crash that depends only on the text (e.g. evaluating a malformed map
	// literal) is part of the call's result here: it must be the same crash alone
	// and concurrently; input-dependent crashes are C06/C07's subject
	defer func() {
		if r := recover(); r != nil {
			if simrt.Failed() {
				panic(r)
			}
			result = fmt.Sprintf("panic: %v", r)
		}
	}()
	text := p.Corpus[op.Text]
	if op.Kind == "parse" {
		ast, err := parser.Parse("c13", text)
		if (ast == nil) == (err == nil) {
			return fmt.Sprintf("BOTH-OR-NEITHER tree=%v err=%v", ast != nil, err)
		}
		if err != nil {
			return "error: " + err.Error()
		}
		return "tree: " + ast.String()
	}
	res, err := loadProgram(erp, "c13", text, newGlobalScope())
	if err != nil {
		return "eval-error: " + err.Error()
	}
	return "value: " + fmt.Sprint(res)
}

func c13Run(p *c13Plan) {
	parser.VerifResetGrammar()
	mk := func() *interpreter.ECALRuntimeProvider {
		erp, _ := newProvider(1, p.Files)
		return erp
	}
	refErp := mk()
	// reference: every call executed alone (before any other task exists)
	ref := map[c13Op]string{}
	for _, ops := range p.Tasks {
		for _, op := range ops {
			if _, ok := ref[op]; !ok {
				ref[op] = c13Do(op, p, refErp)
			}
		}
	}
	var shared *interpreter.ECALRuntimeProvider
	if p.Shared {
		shared = mk()
	}
	erps := make([]*interpreter.ECALRuntimeProvider, len(p.Tasks))
	for i := range p.Tasks {
		if p.Shared {
			erps[i] = shared
		} else {
			erps[i] = mk()
		}
	}
	var wg simsync.WaitGroup
	for ti, ops := range p.Tasks {
		ti, ops := ti, ops
		wg.Add(1)
		simrt.Go(fmt.Sprintf("parser%d", ti), func() {
			defer wg.Done()
			for _, op := range ops {
				got := c13Do(op, p, erps[ti])
				if got != ref[op] {
					kind := "result-differs/" + op.Kind
					simrt.Fail("oracle:parse-not-reentrant", kind,
						"%s of corpus text %d gave a different result when run concurrently.\n--- text:\n%s\n--- alone:\n%s\n--- concurrent (task %d):\n%s",
						op.Kind, op.Text, p.Corpus[op.Text], clip(ref[op]), ti, clip(got))
				}
			}
		})
	}
	wg.Wait()
	// afterwards the grammar must still be intact: parse everything once more
	again := map[c13Op]bool{}
	var order []c13Op
	for _, ops := range p.Tasks {
		for _, op := range ops {
			if !again[op] {
				again[op] = true
				order = append(order, op)
			}
		}
	}
	for _, op := range order {
		want := ref[op]
		if op.Kind != "parse" {
			continue
		}
		if got := c13Do(op, p, refErp); got != want {
			simrt.Fail("oracle:parse-not-reentrant", "grammar-corrupted-afterwards",
				"after the concurrent phase, parsing corpus text %d alone gives a different result than before.\n--- text:\n%s\n--- before:\n%s\n--- after:\n%s",
				op.Text, p.Corpus[op.Text], clip(want), clip(got))
		}
	}
}

func clip(s string) string {
	if len(s) > 700 {
		return s[:700] + "..."
	}
	return s
}
