package main

import (
	"fmt"
	"math"
	"sort"
	"strings"
	"time"

	"github.com/anishathalye/porcupine"
	"github.com/krotik/ecal/engine"
	"simrt"
	"simrt/simsync"
	"simrt/simtime"
)

// Cascade workloads for C02 (waiting returns after the whole cascade, with
// exactly its errors) and C10 (priorities, dequeue order, HighestPriority,
// fail-on-first-error).  One plan generator, one run function; each property
// enables its own oracles.

type casChild struct {
	Kind     int  `json:"kind"`
	Prio     int  `json:"prio"`
	Deferred bool `json:"deferred,omitempty"` // the child monitor is created in the action, its event is added later by another goroutine
}

// extremePrios: rule priorities whose differences do not fit an int (selected by
// casRule.PrioX so that plans stay exact when they travel as JSON numbers).
var extremePrios = []int{0, math.MinInt64, math.MaxInt64, -1, 1, math.MaxInt64 - 1, math.MinInt64 + 1}

// P is the priority the rule is registered with.
func (ru casRule) P() int {
	if ru.PrioX > 0 && ru.PrioX < len(extremePrios) {
		return extremePrios[ru.PrioX]
	}
	return ru.Prio
}

type casRule struct {
	PrioX    int        `json:"priox,omitempty"` // > 0: index into extremePrios, overrides Prio
	Name     string     `json:"name"`
	Kind     int        `json:"kind"`
	Prio     int        `json:"prio"`
	Fail     bool       `json:"fail,omitempty"` // fault: the action returns an error
	StallNs  int        `json:"stall,omitempty"`
	Yields   int        `json:"yields,omitempty"`
	Children []casChild `json:"children,omitempty"`
	SampleHP bool       `json:"sample_hp,omitempty"`
	Scope    []string   `json:"scope,omitempty"`            // scope paths the cascade must allow
	Nested   int        `json:"nested_wait_kind,omitempty"` // the action starts a cascade of this kind with AddEventAndWait (blocks its worker)
}

type casRoot struct {
	Kind        int  `json:"kind"`
	Wait        bool `json:"wait"`
	PauseNs     int  `json:"pause,omitempty"`
	Scope       int  `json:"scope,omitempty"`               // index into the plan's scopes (0 = default scope)
	Late        bool `json:"set_after_monitor,omitempty"`   // the fail-on-first-error setting gets its final value after the root monitor was created
	LateHandler bool `json:"late_finish_handler,omitempty"` // (AddEvent only) the finish handler is attached after AddEvent returned, while the cascade is still running
}

type casPlan struct {
	Scopes     []map[string]bool `json:"scopes,omitempty"`                          // cascade scopes (index 0 is the default scope and not listed)
	ToggleFF   bool              `json:"toggle_fail_first_while_running,omitempty"` // the setting is changed after Start()
	ResetCycle bool              `json:"reset_cycle,omitempty"`                     // configure, add a rule, Reset(), then add the real rules (multi-step API sequence)
	Workers    int               `json:"workers"`
	Resize     int               `json:"resize_to,omitempty"`      // >0: the pool of the running processor is resized (without waiting) before the events arrive
	Settle     bool              `json:"resize_settled,omitempty"` // ... after its workers have gone to sleep
	ResizeAt   int               `json:"resize_at,omitempty"`      // >0: the resize happens that many simulated ns after the clients started (events queued / in flight)
	FailFirst  bool              `json:"fail_first"`
	NKinds     int               `json:"kinds"`
	Rules      []casRule         `json:"rules"`
	Clients    [][]casRoot       `json:"clients"`
}

func init() {
	register(&Workload{ID: "C02", Gen: casGen, New: func() interface{} { return &casPlan{} },
		Run: func(p interface{}) { casRun(p.(*casPlan), "C02") }, Shrink: casShrink, Budget: 1_500_000})
	register(&Workload{ID: "C10", Gen: casGen, New: func() interface{} { return &casPlan{} },
		Run: func(p interface{}) { casRun(p.(*casPlan), "C10") }, Shrink: casShrink, Budget: 1_500_000})
}

func casGen(r *simrt.RNG, tier string) interface{} {
	big := tier == "thorough"
	p := &casPlan{}
	switch r.Intn(10) {
	case 0, 1, 2, 3:
		p.Workers = 1
	case 4, 5, 6:
		p.Workers = 2
	case 7, 8:
		p.Workers = 3
	default:
		p.Workers = 1 + r.Intn(4)
		if big && r.Bool(0.4) {
			p.Workers = 1 + r.Intn(16)
		}
	}
	p.FailFirst = r.Bool(0.5)
	p.ResetCycle = r.Bool(0.15)
	if r.Bool(0.12) {
		p.Resize = 1 + r.Intn(p.Workers+1)
		p.Settle = r.Bool(0.6)
		if r.Bool(0.5) {
			p.Settle, p.ResizeAt = false, 1+r.Intn(40)
		}
	}
	p.ToggleFF = r.Bool(0.15)
	p.NKinds = 2 + r.Intn(5)
	widePrio := r.Bool(0.3) // many distinct priority levels active at once
	// "all priority assignments": also numbers whose difference does not fit an int
	extremePrio := r.Bool(0.08)
	if r.Bool(0.25) {
		p.Scopes = []map[string]bool{{"": true, "s": false}, {"s": true}, {"": true, "s.t": false, "v": false}}[:1+r.Intn(3)]
	}
	// kinds form a DAG: a rule on kind k only adds children of kinds > k, so every
	// cascade is finite (depth <= NKinds); some kinds have no rule (skipped events)
	depthLeft := func(k int) int { return p.NKinds - 1 - k }
	nr := 0
	for k := 0; k < p.NKinds; k++ {
		n := r.Intn(4)
		if k == 0 && n == 0 {
			n = 1
		}
		if r.Bool(0.25) && k > 0 {
			n = 0 // a kind nobody listens to: events of it are skipped
		}
		for i := 0; i < n; i++ {
			ru := casRule{Name: fmt.Sprintf("r%d", nr), Kind: k, Prio: r.Intn(4)}
			if widePrio {
				ru.Prio = r.Intn(9)
			}
			if len(p.Scopes) > 0 && r.Bool(0.5) {
				ru.Scope = []string{[]string{"s", "s.t", "v", ""}[r.Intn(4)]}
			}
			if r.Bool(0.2) {
				ru.Prio = r.Intn(7) - 3 // any integer orders rules, also negative ones
			}
			if extremePrio && r.Bool(0.7) {
				ru.PrioX = 1 + r.Intn(len(extremePrios)-1)
			}
			nr++
			ru.Fail = r.Bool(0.25)
			if r.Bool(0.2) {
				ru.StallNs = 1 + r.Intn(30)
			}
			if r.Bool(0.25) {
				ru.Yields = 1 + r.Intn(3)
			}
			ru.SampleHP = r.Bool(0.5)
			if depthLeft(k) > 0 && r.Bool(0.6) {
				nc := 1 + r.Intn(3)
				for c := 0; c < nc; c++ {
					ch := casChild{Kind: k + 1 + r.Intn(depthLeft(k)), Prio: r.Intn(4), Deferred: r.Bool(0.12)}
					if widePrio {
						ch.Prio = r.Intn(9) - 2 // child monitors may carry any integer, also -1
					}
					ru.Children = append(ru.Children, ch)
				}
			}
			p.Rules = append(p.Rules, ru)
		}
	}
	// bound the total cascade size
	for casSize(p, 0, 0) > 60 {
		trimmed := false
		for i := range p.Rules {
			if len(p.Rules[i].Children) > 0 {
				p.Rules[i].Children = p.Rules[i].Children[:len(p.Rules[i].Children)-1]
				trimmed = true
				break
			}
		}
		if !trimmed {
			break
		}
	}
	nc := 1 + r.Intn(3)
	nested := false
	if p.Workers >= 2 && (p.Resize == 0 || p.Resize >= 2) && r.Bool(0.12) {
		// nested wait: one rule on kind 0 waits for a cascade of its own.  Kind 0 is never
		// a child kind and (below) only one root event of kind 0 is added, so at most one
		// worker is ever blocked in a wait and another one is always available.
		for i := range p.Rules {
			if p.Rules[i].Kind == 0 {
				p.Rules = append(p.Rules, casRule{Name: fmt.Sprintf("r%d", nr), Kind: p.NKinds, Prio: 0, Fail: r.Bool(0.3)})
				p.Rules[i].Nested = p.NKinds
				p.NKinds++
				nested = true
				break
			}
		}
	}
	defer func() {
		if !nested {
			return
		}
		seen := false
		for ci := range p.Clients {
			for ri := range p.Clients[ci] {
				ro := &p.Clients[ci][ri]
				if ro.Kind == 0 || ro.Kind == p.NKinds-1 {
					if seen || ro.Kind != 0 {
						ro.Kind = 1 + r.Intn(p.NKinds-2+1)%maxInt(1, p.NKinds-2)
						if ro.Kind >= p.NKinds-1 {
							ro.Kind = 1
						}
						if p.NKinds-1 <= 1 {
							ro.Kind = 0
							ro.Wait = false
							ro.PauseNs = -1 // dropped below
						}
					} else {
						seen = true
					}
				}
			}
		}
		for ci := range p.Clients {
			var keep []casRoot
			for _, ro := range p.Clients[ci] {
				if ro.PauseNs >= 0 {
					keep = append(keep, ro)
				}
			}
			p.Clients[ci] = keep
		}
		if !seen {
			p.Clients = append(p.Clients, []casRoot{{Kind: 0, Wait: r.Bool(0.5)}})
		}
	}()
	for c := 0; c < nc; c++ {
		var roots []casRoot
		n := 1 + r.Intn(2)
		if big {
			n = 1 + r.Intn(3)
		}
		for i := 0; i < n; i++ {
			k := 0
			if r.Bool(0.3) {
				k = r.Intn(p.NKinds)
			}
			ro := casRoot{Kind: k, Wait: r.Bool(0.7), PauseNs: r.Intn(20)}
			if !ro.Wait && r.Bool(0.25) {
				ro.LateHandler = true
			}
			if len(p.Scopes) > 0 {
				ro.Scope = r.Intn(len(p.Scopes) + 1)
			}
			roots = append(roots, ro)
		}
		p.Clients = append(p.Clients, roots)
	}
	if len(p.Clients) == 1 && len(p.Clients[0]) == 1 && r.Bool(0.3) {
		p.Clients[0][0].Late = true // only without other cascades in flight: the setting is global
	}
	return p
}

func casSize(p *casPlan, kind, depth int) int {
	if depth > 8 {
		return 1000
	}
	n := 1
	for _, ru := range p.Rules {
		if ru.Kind == kind {
			for _, c := range ru.Children {
				n += casSize(p, c.Kind, depth+1)
			}
		}
	}
	return n
}

func casShrink(pi interface{}) []interface{} {
	p := pi.(*casPlan)
	var out []interface{}
	clone := func() *casPlan {
		q := *p
		q.Rules = nil
		for _, ru := range p.Rules {
			ru.Children = append([]casChild(nil), ru.Children...)
			q.Rules = append(q.Rules, ru)
		}
		q.Clients = nil
		for _, c := range p.Clients {
			q.Clients = append(q.Clients, append([]casRoot(nil), c...))
		}
		return &q
	}
	for i := range p.Clients {
		if len(p.Clients) > 1 {
			q := clone()
			q.Clients = append(q.Clients[:i], q.Clients[i+1:]...)
			out = append(out, q)
		}
		for j := range p.Clients[i] {
			if len(p.Clients[i]) > 1 {
				q := clone()
				q.Clients[i] = append(q.Clients[i][:j], q.Clients[i][j+1:]...)
				out = append(out, q)
			}
			if p.Clients[i][j].PauseNs > 0 {
				q := clone()
				q.Clients[i][j].PauseNs = 0
				out = append(out, q)
			}
		}
	}
	for i := range p.Rules {
		if len(p.Rules) > 1 {
			q := clone()
			q.Rules = append(q.Rules[:i], q.Rules[i+1:]...)
			out = append(out, q)
		}
		ru := p.Rules[i]
		for c := range ru.Children {
			q := clone()
			q.Rules[i].Children = append(q.Rules[i].Children[:c], q.Rules[i].Children[c+1:]...)
			out = append(out, q)
		}
		if ru.StallNs > 0 || ru.Yields > 0 {
			q := clone()
			q.Rules[i].StallNs, q.Rules[i].Yields = 0, 0
			out = append(out, q)
		}
		if ru.Fail {
			q := clone()
			q.Rules[i].Fail = false
			out = append(out, q)
		}
		if ru.SampleHP {
			q := clone()
			q.Rules[i].SampleHP = false
			out = append(out, q)
		}
		if ru.Prio > 0 {
			q := clone()
			q.Rules[i].Prio = 0
			out = append(out, q)
		}
		if ru.PrioX > 0 {
			q := clone()
			q.Rules[i].PrioX = 0
			out = append(out, q)
		}
	}
	if p.Workers > 1 {
		q := clone()
		q.Workers = p.Workers - 1
		out = append(out, q)
	}
	if p.Resize > 0 {
		q := clone()
		q.Resize, q.Settle, q.ResizeAt = 0, false, 0
		out = append(out, q)
	}
	if p.ResetCycle {
		q := clone()
		q.ResetCycle = false
		out = append(out, q)
	}
	if p.ToggleFF {
		q := clone()
		q.ToggleFF = false
		out = append(out, q)
	}
	return out
}

// ---------------------------------------------------------------------------

type casAction struct {
	rule       int
	start, end int64
	failed     bool
	tid        uint64
}

type casEvent struct {
	id       int
	kind     int
	root     int // cascade id
	parent   int
	mon      engine.Monitor
	monPrio  int
	skipped  bool // AddEvent returned nil
	addStart int64
	addEnd   int64
	actions  []*casAction
	adding   bool
	deferred bool
}

type casCascade struct {
	id         int
	rm         *engine.RootMonitor
	finished   int // finish handler invocations
	returned   bool
	waited     bool
	rootEvent  int
	addingRoot bool
	scope      map[string]bool // nil = default scope {"": true}
	// late finish handler: the first action of the root event waits until the handler is set
	lateHandler bool
	handlerSet  bool
	hmu         simsync.Mutex
	hcond       *simsync.Cond
}

type casState struct {
	p         *casPlan
	prop      string
	proc      engine.Processor
	events    []*casEvent
	cascades  []*casCascade
	running   map[int]int // cascade -> actions currently running
	inAdd     map[int]int // cascade -> AddEvent calls in progress
	lastEnd   map[uint64]int64
	byKind    map[int][]int // kind -> rule indexes
	hpSamples int
	deferred  simsync.WaitGroup
}

// rulesFor returns the rules that must run for an event: those of its kind whose scope
// requirements the scope of its cascade allows.
func (st *casState) rulesFor(e *casEvent) []int {
	sc := st.cascades[e.root].scope
	if sc == nil {
		sc = map[string]bool{"": true}
	}
	var out []int
	for _, ri := range st.byKind[e.kind] {
		ok := true
		for _, path := range st.p.Rules[ri].Scope {
			if !refScopeAllowed(sc, path) {
				ok = false
			}
		}
		if ok {
			out = append(out, ri)
		}
	}
	return out
}

func kindName(k int) []string { return []string{"cas", fmt.Sprintf("k%d", k)} }

func (st *casState) newEvent(kind, root, parent int) *casEvent {
	e := &casEvent{id: len(st.events), kind: kind, root: root, parent: parent}
	st.events = append(st.events, e)
	return e
}

func (st *casState) engEvent(e *casEvent) *engine.Event {
	return engine.NewEvent(fmt.Sprintf("ev%d", e.id), kindName(e.kind), map[interface{}]interface{}{"id": e.id})
}

func isFinished(m engine.Monitor) bool {
	return m.(interface{ IsFinished() bool }).IsFinished()
}

// action is the body of every rule.
func (st *casState) action(ri int) engine.RuleAction {
	return func(p engine.Processor, m engine.Monitor, ev *engine.Event, tid uint64) error {
		ru := st.p.Rules[ri]
		id, ok := ev.State()["id"].(int)
		if !ok || id < 0 || id >= len(st.events) {
			simrt.Fail("oracle:foreign-event", "foreign-event", "rule %s fired for an event the harness never added: %v", ru.Name, ev)
		}
		e := st.events[id]
		if cas := st.cascades[e.root]; cas.lateHandler {
			cas.hmu.Lock()
			for !cas.handlerSet {
				cas.hcond.Wait()
			}
			cas.hmu.Unlock()
		}
		if e.kind != ru.Kind {
			simrt.Fail("oracle:wrong-rule", "wrong-rule", "rule %s (kind k%d) fired for event %d of kind k%d", ru.Name, ru.Kind, id, e.kind)
		}
		if m != e.mon && e.mon != nil {
			simrt.Fail("oracle:wrong-monitor", "wrong-monitor", "rule %s for event %d got monitor %v, the event was added with %v", ru.Name, id, m, e.mon)
		}
		if st.cascades[e.root].returned && st.cascades[e.root].waited {
			simrt.Fail("oracle:wait-returned-early", "wait-early/action-after-return",
				"action %s of event %d (cascade %d) started after AddEventAndWait for that cascade had returned", ru.Name, id, e.root)
		}
		if cas := st.cascades[e.root]; cas.addingRoot && cas.rootEvent == e.id {
			// the root event is being processed: its AddEvent has activated the monitor and queued the task
			cas.addingRoot = false
			st.inAdd[e.root]--
		}
		a := &casAction{rule: ri, start: simrt.Seq(), tid: tid}
		e.actions = append(e.actions, a)
		st.running[e.root]++
		for i := 0; i < ru.Yields; i++ {
			simrt.Yield()
		}
		if ru.StallNs > 0 {
			simrt.Count("fault_stalled_action")
			simtime.Sleep(simtime.Duration(ru.StallNs))
		}
		for _, c := range ru.Children {
			ce := st.newEvent(c.Kind, e.root, e.id)
			ce.monPrio = c.Prio
			cm := m.NewChildMonitor(c.Prio)
			ce.mon = cm
			if c.Deferred {
				// the monitor exists (the cascade cannot finish without it); its event is
				// added by another goroutine, possibly after this action has returned
				ce.deferred = true
				simrt.Count("fault_deferred_child_event")
				st.deferred.Add(1)
				simrt.Go("deferred-add", func() {
					defer st.deferred.Done()
					simrt.Yield()
					st.add(p, ce, cm)
				})
				continue
			}
			st.add(p, ce, cm)
		}
		if ru.Nested > 0 {
			simrt.Count("fault_nested_wait_in_action")
			st.addRoot(p, ru.Nested, true, 0, false, false)
		}
		if ru.SampleHP && st.prop == "C10" {
			st.sampleHP(e, m)
		}
		a.failed = ru.Fail
		a.end = simrt.Seq()
		st.lastEnd[tid] = a.end
		st.running[e.root]--
		if ru.Fail {
			simrt.Count("fault_rule_error")
			return fmt.Errorf("rule %s failed on event %d", ru.Name, id)
		}
		return nil
	}
}

func (st *casState) add(p engine.Processor, e *casEvent, m engine.Monitor) {
	e.addStart = simrt.Seq()
	e.adding = true
	st.inAdd[e.root]++
	res, err := p.AddEvent(st.engEvent(e), m)
	st.inAdd[e.root]--
	e.adding = false
	e.addEnd = simrt.Seq()
	st.afterAdd(e, res, err)
}

func (st *casState) afterAdd(e *casEvent, res engine.Monitor, err error) {
	if err != nil {
		simrt.Fail("oracle:add-error", "add-error", "AddEvent returned error %v for event %d", err, e.id)
	}
	triggers := len(st.byKind[e.kind]) > 0
	if res == nil {
		e.skipped = true
		simrt.Count("fault_skipped_child_event")
		if triggers {
			simrt.Fail("oracle:event-skipped", "event-skipped", "event %d of kind k%d was reported as not triggering although %d rule(s) match it", e.id, e.kind, len(st.byKind[e.kind]))
		}
	} else if !triggers {
		simrt.Fail("oracle:event-not-skipped", "event-not-skipped", "event %d of kind k%d triggers no rule but AddEvent returned a monitor", e.id, e.kind)
	}
}

// sampleHP checks RootMonitor.HighestPriority from inside an action.
func (st *casState) sampleHP(e *casEvent, m engine.Monitor) {
	// the sample and the harness's view of the monitors are taken without a scheduling
	// point in between (the accessors used are instrumented code)
	simrt.Atomic(func() { st.sampleHPAtomic(e, m) })
}

func (st *casState) sampleHPAtomic(e *casEvent, m engine.Monitor) {
	rm := m.RootMonitor()
	hp := rm.HighestPriority()
	st.hpSamples++
	own := e.monPrio
	minusOne := false // -1 is also a legal priority of a child monitor
	for _, x := range st.events {
		if x.root == e.root && x.monPrio == -1 {
			minusOne = true
		}
	}
	if hp == -1 && !minusOne {
		simrt.Fail("oracle:highest-priority", "hp/minus-one-while-active",
			"HighestPriority() = -1 sampled inside an action of event %d whose monitor (priority %d) is active", e.id, own)
	}
	if hp > own {
		simrt.Fail("oracle:highest-priority", "hp/above-own",
			"HighestPriority() = %d sampled inside an action of event %d whose own active monitor has priority %d", hp, e.id, own)
	}
	// whatever the interleaving: the reported number is the priority of a monitor of this
	// cascade that was handed to the processor with a triggering event (a skipped child
	// is never "activated by a triggering event", not even for a moment)
	okPrio := false
	for _, x := range st.events {
		if x.root == e.root && len(st.byKind[x.kind]) > 0 && (x.addStart > 0 || x.parent == -1) && x.monPrio == hp {
			okPrio = true
			break
		}
	}
	if !okPrio {
		simrt.Fail("oracle:highest-priority", "hp/not-an-activated-priority",
			"HighestPriority() = %d sampled in event %d, but no monitor of the cascade that was added with a triggering event has this priority (a skipped child's priority leaked)", hp, e.id)
	}
	// exact value when nobody else is in the middle of activating or finishing a
	// monitor: one worker (the sampler) and no AddEvent call in progress
	if st.p.Workers == 1 && st.p.Resize <= 1 && st.inAdd[e.root] == 0 {
		want, found := -1, false
		for _, x := range st.events {
			if x.root != e.root || x.mon == nil || x.skipped {
				continue
			}
			if x.mon.IsActivated() && !isFinished(x.mon) {
				if !found || x.monPrio < want {
					want, found = x.monPrio, true
				}
			}
		}
		simrt.Count("hp_exact_samples")
		if hp != want {
			simrt.Fail("oracle:highest-priority", "hp/exact",
				"HighestPriority() = %d but the lowest priority among activated, unfinished monitors of the cascade is %d (sampled in event %d, one worker, no AddEvent in progress)", hp, want, e.id)
		}
	}
}

// addRoot starts a new cascade with a root event of the given kind (from a client
// task, or - nested wait - from inside a rule action on a worker).
func (st *casState) addRoot(proc engine.Processor, kind int, wait bool, scopeIdx int, late bool, lateHandler bool) {
	cas := &casCascade{id: len(st.cascades), waited: wait}
	st.cascades = append(st.cascades, cas)
	var rs *engine.RuleScope
	if scopeIdx > 0 && scopeIdx <= len(st.p.Scopes) {
		cas.scope = st.p.Scopes[scopeIdx-1]
		rs = engine.NewRuleScope(cas.scope)
	}
	if late && (len(st.p.Clients) != 1 || len(st.p.Clients[0]) != 1) {
		late = false // the setting is global: only without any other cascade in flight
	}
	if late {
		proc.SetFailOnFirstErrorInTriggerSequence(!st.p.FailFirst)
	}
	rm := proc.NewRootMonitor(nil, rs)
	if late {
		// the setting gets its final value after the monitor exists, before the event is added
		proc.SetFailOnFirstErrorInTriggerSequence(st.p.FailFirst)
	}
	cas.rm = rm
	cas.hcond = simsync.NewCond(&cas.hmu)
	handler := func(engine.Processor) {
		cas.finished++
		if cas.finished > 1 {
			simrt.Fail("oracle:finish-twice", "finish-twice", "finish handler of cascade %d ran %d times", cas.id, cas.finished)
		}
		if n := st.running[cas.id]; n > 0 {
			simrt.Fail("oracle:finish-early", "finish-early", "finish notification of cascade %d fired while %d of its actions were still running", cas.id, n)
		}
		// a finish handler typically reads the result of its cascade
		if st.prop == "C02" {
			st.checkErrors(cas, "finish handler")
		} else {
			_ = cas.rm.AllErrors()
		}
	}
	lateHandler = lateHandler && !wait
	if !lateHandler {
		rm.SetFinishHandler(handler)
	}
	e := st.newEvent(kind, cas.id, -1)
	e.mon = rm
	cas.rootEvent = e.id
	if wait {
		e.addStart = simrt.Seq()
		// the AddEvent inside is in progress until the root event's first action starts
		cas.addingRoot = true
		st.inAdd[cas.id]++
		res, err := proc.AddEventAndWait(st.engEvent(e), rm)
		if cas.addingRoot {
			cas.addingRoot = false
			st.inAdd[cas.id]--
		}
		e.addEnd = simrt.Seq()
		cas.returned = true
		st.afterAdd(e, res, err)
		st.checkCascadeAtReturn(cas)
	} else {
		cas.lateHandler = lateHandler
		st.add(proc, e, rm)
		if lateHandler {
			// the cascade is still running (its first action waits for this)
			simrt.Count("fault_finish_handler_attached_late")
			rm.SetFinishHandler(handler)
			cas.hmu.Lock()
			cas.handlerSet = true
			cas.hcond.Broadcast()
			cas.hmu.Unlock()
		}
	}
}

func casRun(p *casPlan, prop string) {
	engine.UnitTestResetIDs()
	st := &casState{p: p, prop: prop, running: map[int]int{}, lastEnd: map[uint64]int64{}, byKind: map[int][]int{}, inAdd: map[int]int{}}
	proc := engine.NewProcessor(p.Workers)
	st.proc = proc
	proc.SetFailOnFirstErrorInTriggerSequence(p.FailFirst != p.ToggleFF)
	if p.ResetCycle {
		// a rule loaded before Reset() must be gone afterwards; the configuration stays
		if err := proc.AddRule(&engine.Rule{Name: "before-reset", KindMatch: []string{"cas.*"}, ScopeMatch: []string{}, Priority: -10,
			Action: func(engine.Processor, engine.Monitor, *engine.Event, uint64) error {
				simrt.Fail("oracle:reset", "rule-survived-reset", "a rule added before Processor.Reset() fired afterwards")
				return nil
			}}); err != nil {
			simrt.Fail("oracle:add-rule", "add-rule", "AddRule: %v", err)
		}
		if err := proc.Reset(); err != nil {
			simrt.Fail("oracle:reset", "reset-error", "Reset: %v", err)
		}
	}
	for i, ru := range p.Rules {
		st.byKind[ru.Kind] = append(st.byKind[ru.Kind], i)
		sm := ru.Scope
		if sm == nil {
			sm = []string{}
		}
		r := &engine.Rule{Name: ru.Name, KindMatch: []string{strings.Join(kindName(ru.Kind), ".")}, ScopeMatch: sm,
			Priority: ru.P(), Action: st.action(i)}
		if err := proc.AddRule(r); err != nil {
			simrt.Fail("oracle:add-rule", "add-rule", "AddRule: %v", err)
		}
	}
	proc.Start()
	if p.Resize > 0 && p.Resize != p.Workers && p.ResizeAt == 0 {
		if p.Settle {
			simrt.WaitQuiescent()
		}
		simrt.Count("fault_pool_resized_while_running")
		proc.ThreadPool().SetWorkerCount(p.Resize, false)
	}
	if p.ToggleFF {
		// changed on the running processor, before any event is added
		proc.SetFailOnFirstErrorInTriggerSequence(p.FailFirst)
	}

	var wg simsync.WaitGroup
	if p.Resize > 0 && p.Resize != p.Workers && p.ResizeAt > 0 {
		wg.Add(1)
		simrt.Go("resizer", func() {
			defer wg.Done()
			simtime.Sleep(simtime.Duration(p.ResizeAt))
			simrt.Count("fault_pool_resized_with_events_in_flight")
			proc.ThreadPool().SetWorkerCount(p.Resize, false)
		})
	}
	for ci, roots := range p.Clients {
		roots := roots
		wg.Add(1)
		simrt.Go(fmt.Sprintf("client%d", ci), func() {
			defer wg.Done()
			for _, ro := range roots {
				if ro.PauseNs > 0 {
					simtime.Sleep(simtime.Duration(ro.PauseNs))
				}
				st.addRoot(proc, ro.Kind, ro.Wait, ro.Scope, ro.Late, ro.LateHandler)
			}
		})
	}
	wg.Wait()
	// let everything settle: nothing is called from here on
	simrt.WaitQuiescent()
	st.checkEnd()
	proc.Finish()
}

// checkCascadeAtReturn runs at the step AddEventAndWait returned.
func (st *casState) checkCascadeAtReturn(cas *casCascade) {
	if st.prop == "C02" {
		if n := st.running[cas.id]; n > 0 {
			simrt.Fail("oracle:wait-returned-early", "wait-early/running", "AddEventAndWait for cascade %d returned while %d of its actions were still running", cas.id, n)
		}
		st.checkComplete(cas, "AddEventAndWait returned")
		st.checkErrors(cas, "AddEventAndWait returned")
	}
	if st.prop == "C10" {
		if st.events[cas.rootEvent].skipped {
			return
		}
		if hp := cas.rm.HighestPriority(); hp != -1 {
			simrt.Fail("oracle:highest-priority", "hp/after-finish", "HighestPriority() = %d after cascade %d finished, want -1", hp, cas.id)
		}
	}
}

// expectedRules checks the actions of one processed event against the trigger
// semantics (no assumption on the order among equal priorities).
func (st *casState) checkEventActions(e *casEvent, when string) {
	rules := st.rulesFor(e)
	if e.skipped || len(rules) == 0 {
		if len(e.actions) > 0 {
			simrt.Fail("oracle:rule-fired-for-skipped", "fired-for-skipped", "event %d was skipped but %d action(s) ran", e.id, len(e.actions))
		}
		return
	}
	count := map[int]int{}
	for _, a := range e.actions {
		count[a.rule]++
		if count[a.rule] > 1 {
			simrt.Fail("oracle:rule-fired-twice", "fired-twice", "%s: rule %s ran %d times for event %d", when, st.p.Rules[a.rule].Name, count[a.rule], e.id)
		}
		if a.end == 0 {
			simrt.Fail("oracle:wait-returned-early", "wait-early/unfinished-action", "%s: action %s of event %d has not ended", when, st.p.Rules[a.rule].Name, e.id)
		}
	}
	firstFail := -1
	for i, a := range e.actions {
		if a.failed {
			firstFail = i
			break
		}
	}
	if st.p.FailFirst && firstFail >= 0 {
		if st.prop == "C10" && firstFail != len(e.actions)-1 {
			simrt.Fail("oracle:fail-first", "fail-first/continued", "%s: fail-on-first-error is on, rule %s failed for event %d but %d further rule(s) ran", when,
				st.p.Rules[e.actions[firstFail].rule].Name, e.id, len(e.actions)-1-firstFail)
		}
		// every rule with a strictly lower priority number than the failing one must have run
		fp := st.p.Rules[e.actions[firstFail].rule].P()
		for _, ri := range rules {
			if st.p.Rules[ri].P() < fp && count[ri] != 1 {
				simrt.Fail("oracle:rule-not-run", "rule-not-run/before-failure", "%s: rule %s (priority %d) did not run for event %d although the first failure was at priority %d",
					when, st.p.Rules[ri].Name, st.p.Rules[ri].P(), e.id, fp)
			}
		}
		return
	}
	for _, ri := range rules {
		if count[ri] != 1 {
			simrt.Fail("oracle:rule-not-run", "rule-not-run", "%s: rule %s ran %d times for event %d (kind k%d), want once", when, st.p.Rules[ri].Name, count[ri], e.id, e.kind)
		}
	}
}

func (st *casState) checkComplete(cas *casCascade, when string) {
	for _, e := range st.events {
		if e.root != cas.id {
			continue
		}
		if e.adding && !e.deferred {
			// (an event added by another goroutine can be processed completely before its
			// AddEvent call has returned to that goroutine)
			simrt.Fail("oracle:wait-returned-early", "wait-early/adding", "%s: event %d of cascade %d is still being added", when, e.id, cas.id)
		}
		st.checkEventActions(e, when)
	}
}

func (st *casState) checkErrors(cas *casCascade, when string) {
	want := map[string]bool{}
	for _, e := range st.events {
		if e.root != cas.id {
			continue
		}
		for _, a := range e.actions {
			if a.failed {
				want[fmt.Sprintf("ev%d/%s", e.id, st.p.Rules[a.rule].Name)] = true
			}
		}
	}
	got := map[string]int{}
	for _, te := range cas.rm.AllErrors() {
		if te == nil {
			simrt.Fail("oracle:errors", "errors/nil-entry", "%s: AllErrors() of cascade %d contains a nil entry", when, cas.id)
		}
		id, _ := te.Event.State()["id"].(int)
		if id < 0 || id >= len(st.events) || st.events[id].root != cas.id {
			simrt.Fail("oracle:errors", "errors/foreign", "%s: AllErrors() of cascade %d reports event %v which belongs to another cascade", when, cas.id, te.Event)
		}
		if te.Monitor != st.events[id].mon {
			simrt.Fail("oracle:errors", "errors/wrong-monitor", "%s: error entry of event %d carries a different monitor", when, id)
		}
		for name := range te.ErrorMap {
			got[fmt.Sprintf("ev%d/%s", id, name)]++
		}
	}
	var diff []string
	for k := range want {
		if got[k] != 1 {
			diff = append(diff, fmt.Sprintf("%s reported %d times", k, got[k]))
		}
	}
	for k := range got {
		if !want[k] {
			diff = append(diff, fmt.Sprintf("%s reported but its action did not fail", k))
		}
	}
	if len(diff) > 0 {
		sort.Strings(diff)
		simrt.Fail("oracle:errors", "errors/mismatch", "%s: error report of cascade %d differs from what its actions returned: %s", when, cas.id, strings.Join(diff, "; "))
	}
}

// checkEnd runs at quiescence after all clients have finished.
func (st *casState) checkEnd() {
	for _, cas := range st.cascades {
		root := st.events[cas.rootEvent]
		if st.prop == "C02" {
			st.checkComplete(cas, "end of run (quiescent)")
			if cas.lateHandler && len(root.actions) == 0 {
				// nothing of the cascade waited for the handler to be attached (no rule of the root
				// event was in scope): it may have finished before the handler existed
				if cas.finished > 1 {
					simrt.Fail("oracle:finish-twice", "finish-twice", "finish handler of cascade %d ran %d times", cas.id, cas.finished)
				}
			} else if !root.skipped && cas.finished != 1 {
				simrt.Fail("oracle:finish-count", "finish-count", "finish handler of cascade %d ran %d times, want exactly once", cas.id, cas.finished)
			}
			for _, e := range st.events {
				if e.root == cas.id && e.mon != nil && !isFinished(e.mon) {
					simrt.Fail("oracle:monitor-unfinished", "monitor-unfinished", "monitor of event %d (cascade %d, skipped=%v) is not finished at the end", e.id, cas.id, e.skipped)
				}
			}
			st.checkErrors(cas, "end of run (quiescent)")
		}
		if st.prop == "C10" {
			for _, e := range st.events {
				if e.root == cas.id {
					st.checkEventActions(e, "end of run (quiescent)")
					st.checkRuleOrder(e)
				}
			}
			if !root.skipped {
				if hp := cas.rm.HighestPriority(); hp != -1 {
					simrt.Fail("oracle:highest-priority", "hp/after-finish", "HighestPriority() = %d at the end of cascade %d, want -1", hp, cas.id)
				}
			}
			// "all failures are reported": the report of the finished cascade holds every failure
			st.checkErrors(cas, "end of run (quiescent)")
		}
	}
	if st.prop == "C10" {
		st.checkDequeueOrder()
	}
	simrt.Count("cascades")
}

// checkRuleOrder: actions of one event do not overlap and run in ascending
// priority number.
func (st *casState) checkRuleOrder(e *casEvent) {
	for i := 1; i < len(e.actions); i++ {
		a, b := e.actions[i-1], e.actions[i]
		if b.start < a.end {
			simrt.Fail("oracle:rule-order", "rule-order/overlap", "actions %s and %s of event %d overlap", st.p.Rules[a.rule].Name, st.p.Rules[b.rule].Name, e.id)
		}
		if st.p.Rules[b.rule].P() < st.p.Rules[a.rule].P() {
			simrt.Fail("oracle:rule-order", "rule-order/priority", "event %d: rule %s (priority %d) ran after rule %s (priority %d)", e.id,
				st.p.Rules[b.rule].Name, st.p.Rules[b.rule].P(), st.p.Rules[a.rule].Name, st.p.Rules[a.rule].P())
		}
	}
}

// ---------------------------------------------------------------------------
// dequeue order as a linearizable per-cascade priority queue (porcupine)

type pqIn struct {
	take    bool
	cascade int
	prio    int
	id      int
}

type pqItem struct{ prio, id int }

var pqModel = porcupine.Model{
	Partition: func(history []porcupine.Operation) [][]porcupine.Operation {
		m := map[int][]porcupine.Operation{}
		var keys []int
		for _, op := range history {
			c := op.Input.(pqIn).cascade
			if _, ok := m[c]; !ok {
				keys = append(keys, c)
			}
			m[c] = append(m[c], op)
		}
		sort.Ints(keys)
		var out [][]porcupine.Operation
		for _, k := range keys {
			out = append(out, m[k])
		}
		return out
	},
	Init: func() interface{} { return []pqItem(nil) },
	Step: func(state, input, output interface{}) (bool, interface{}) {
		q := state.([]pqItem)
		in := input.(pqIn)
		if !in.take {
			nq := append(append([]pqItem(nil), q...), pqItem{in.prio, in.id})
			return true, nq
		}
		// take is legal iff the element is the least (priority, insertion) one
		best := -1
		for i, it := range q {
			if best == -1 || it.prio < q[best].prio {
				best = i
			}
		}
		if best == -1 || q[best].id != in.id {
			return false, q
		}
		nq := append(append([]pqItem(nil), q[:best]...), q[best+1:]...)
		return true, nq
	},
	Equal: func(a, b interface{}) bool {
		x, y := a.([]pqItem), b.([]pqItem)
		if len(x) != len(y) {
			return false
		}
		for i := range x {
			if x[i] != y[i] {
				return false
			}
		}
		return true
	},
	DescribeOperation: func(input, output interface{}) string {
		in := input.(pqIn)
		if in.take {
			return fmt.Sprintf("take(ev%d prio %d)", in.id, in.prio)
		}
		return fmt.Sprintf("push(ev%d prio %d)", in.id, in.prio)
	},
}

func (st *casState) checkDequeueOrder() {
	var ops []porcupine.Operation
	perTid := map[uint64][]*casAction{}
	for _, e := range st.events {
		for _, a := range e.actions {
			perTid[a.tid] = append(perTid[a.tid], a)
		}
	}
	for _, as := range perTid {
		sort.Slice(as, func(i, j int) bool { return as[i].start < as[j].start })
	}
	prevEnd := func(a *casAction) int64 {
		as := perTid[a.tid]
		var pe int64
		for _, b := range as {
			if b.start < a.start && b.end > pe {
				pe = b.end
			}
		}
		return pe
	}
	n := 0
	for _, e := range st.events {
		if e.skipped || len(st.rulesFor(e)) == 0 {
			continue // (an event none of whose rules is in scope is queued and taken without a visible action)
		}
		prio := e.monPrio
		if prio < 0 {
			prio = 0
		}
		ops = append(ops, porcupine.Operation{ClientId: n, Input: pqIn{false, e.root, prio, e.id}, Call: e.addStart, Output: nil, Return: e.addEnd})
		n++
		if len(e.actions) > 0 {
			first := e.actions[0]
			ops = append(ops, porcupine.Operation{ClientId: n, Input: pqIn{true, e.root, prio, e.id}, Call: prevEnd(first), Output: nil, Return: first.start})
			n++
		}
	}
	if len(ops) == 0 {
		return
	}
	if len(ops) > 90 {
		simrt.Count("porcupine_history_too_long")
		return
	}
	res := porcupine.CheckOperationsTimeout(pqModel, ops, 5*time.Second)
	simrt.Count("porcupine_histories")
	switch res {
	case porcupine.Illegal:
		var desc []string
		for _, op := range ops {
			desc = append(desc, fmt.Sprintf("%s@[%d,%d]", pqModel.DescribeOperation(op.Input, nil), op.Call, op.Return))
		}
		simrt.Fail("oracle:dequeue-order", "dequeue-order", "dequeue history is not a linearizable per-cascade priority queue (an event was taken before a higher-priority or older equal-priority event queued earlier): %s", strings.Join(desc, " "))
	case porcupine.Unknown:
		simrt.Count("porcupine_inconclusive")
	}
}

func maxInt(a, b int) int {
	if a > b {
		return a
	}
	return b
}
