package main

import (
	"encoding/base64"
	"encoding/json"
	"fmt"
	"net"
	"os"
	"path/filepath"
	"strings"
	"time"

	"github.com/krotik/ecal/cli/tool"
	"github.com/krotik/ecal/config"
	"github.com/krotik/ecal/engine"
	"github.com/krotik/ecal/interpreter"
	"github.com/krotik/ecal/util"
	"simrt"
	"simrt/simsync"
)

// C15 / C16 through the debug console of cli/tool: the real CLIDebugInterpreter with
// the real connection handler of its telnet debug server, every connection a task of
// its own with its own thread id, the network replaced by an in-memory connection
// (the only stub here; the listener's accept loop is not run).
//
// Clients send lines (debugger commands prefixed with ##, ECAL statements, console
// commands such as @reload) and read one JSON object per line sent.  A resumer
// client keeps continuing whatever thread is reported suspended, so that nothing
// stays suspended for lack of a client.

type cliPlan struct {
	Conns        [][]string `json:"connections"` // lines per client connection ($T = id of a suspended thread, if any)
	BreakOnStart bool       `json:"break_on_start,omitempty"`
	BreakOnError bool       `json:"break_on_error,omitempty"`
	Reloads      int        `json:"reloads,omitempty"` // @reload typed at the console, one at a time, after the initial load
}

// memTerm is the console's output terminal.
type memTerm struct{ b strings.Builder }

func (t *memTerm) WriteString(s string) { t.b.WriteString(s) }

const cliEntry = "c15.ecal"

var cliStatements = []string{"inc(1)", "zz := dbl(2)", "log(\"hello\")", "raise(\"ConsoleErr\", \"d\", [1])", "yy := 1 / 0", "(((", "inc(dbl(inc(2)))",
	"qq := [1, 2, {\"a\": inc(3)}]", "", "mutex m { mm := inc(1) }"}

func cliGenLine(r *simrt.RNG, p *dbgPlan) string {
	line := func() int { return 1 + r.Intn(p.Lines) }
	switch x := r.Intn(100); {
	case x < 12:
		return "##status"
	case x < 24:
		return fmt.Sprintf("##break %s:%d", cliEntry, line())
	case x < 30:
		return fmt.Sprintf("##%s %s:%d", []string{"rmbreak", "disablebreak"}[r.Intn(2)], cliEntry, line())
	case x < 33:
		return "##rmbreak " + cliEntry
	case x < 45:
		return "##cont $T " + []string{"resume", "stepin", "stepover", "stepout"}[r.Intn(4)]
	case x < 52:
		return "##describe $T"
	case x < 56:
		return "##lockstate"
	case x < 60:
		return "##inject $T zz " + []string{"1", "inc(1)", "[1, {2: 3}]", "1 / 0"}[r.Intn(4)]
	case x < 64:
		return "##extract $T " + []string{"b", "a", "v0", "nosuch"}[r.Intn(4)] + " ex"
	case x < 70:
		return "##" + []string{"", "nosuch", "cont", "cont x y", "break", "break :", "describe -1", "describe 99999999999999999999", "status extra", "inject 1", "disablebreak x:y:z"}[r.Intn(11)]
	case x < 88:
		return cliStatements[r.Intn(len(cliStatements))]
	case x < 96:
		return "@dbg " + []string{"", "cont", "*", "["}[r.Intn(4)]
	case x < 98:
		return "?"
	default:
		return []string{"@sym", "@sym nosuch", "@std math", "@std"}[r.Intn(4)]
	}
}

func cliGen(r *simrt.RNG, p *dbgPlan, tier string) *cliPlan {
	c := &cliPlan{BreakOnStart: r.Bool(0.3), BreakOnError: r.Bool(0.4)}
	if r.Bool(0.35) {
		c.Reloads = 1 + r.Intn(2)
	}
	n := 1 + r.Intn(3)
	for i := 0; i < n; i++ {
		var lines []string
		k := 2 + r.Intn(6)
		if tier == "thorough" {
			k = 2 + r.Intn(12)
		}
		for j := 0; j < k; j++ {
			lines = append(lines, cliGenLine(r, p))
		}
		c.Conns = append(c.Conns, lines)
	}
	return c
}

func cliShrink(p *dbgPlan) []interface{} {
	var out []interface{}
	c := p.CLI
	clone := func() (*dbgPlan, *cliPlan) {
		q := *p
		nc := *c
		nc.Conns = nil
		for _, l := range c.Conns {
			nc.Conns = append(nc.Conns, append([]string(nil), l...))
		}
		q.CLI = &nc
		q.Blocks = append([]string(nil), p.Blocks...)
		q.Params = append([]int(nil), p.Params...)
		return &q, &nc
	}
	for i := range c.Conns {
		if len(c.Conns) > 1 {
			q, nc := clone()
			nc.Conns = append(nc.Conns[:i], nc.Conns[i+1:]...)
			out = append(out, q)
		}
		for j := range c.Conns[i] {
			q, nc := clone()
			nc.Conns[i] = append(nc.Conns[i][:j], nc.Conns[i][j+1:]...)
			out = append(out, q)
		}
	}
	if c.BreakOnStart {
		q, nc := clone()
		nc.BreakOnStart = false
		out = append(out, q)
	}
	if c.BreakOnError {
		q, nc := clone()
		nc.BreakOnError = false
		out = append(out, q)
	}
	if c.Reloads > 0 {
		q, nc := clone()
		nc.Reloads--
		out = append(out, q)
	}
	for i := range p.Blocks {
		if len(p.Blocks) > 1 {
			q, _ := clone()
			q.Blocks = append(q.Blocks[:i], q.Blocks[i+1:]...)
			q.Params = append(q.Params[:i], q.Params[i+1:]...)
			out = append(out, q)
		}
	}
	if p.Workers > 1 {
		q, _ := clone()
		q.Workers = 1
		out = append(out, q)
	}
	return out
}

// ---------------------------------------------------------------------------
// in-memory connection

type simAddr string

func (a simAddr) Network() string { return "sim" }
func (a simAddr) String() string  { return string(a) }

type simPipe struct {
	buf    []byte
	closed bool
}

type simConn struct {
	name       string
	mu         simsync.Mutex
	cond       *simsync.Cond
	c2s, s2c   simPipe
	serverGone bool
}

func newSimConn(name string) *simConn {
	c := &simConn{name: name}
	c.cond = simsync.NewCond(&c.mu)
	return c
}

// server side (net.Conn)
func (c *simConn) Read(b []byte) (int, error) {
	c.mu.Lock()
	defer c.mu.Unlock()
	for len(c.c2s.buf) == 0 && !c.c2s.closed {
		if simrt.Failed() {
			return 0, fmt.Errorf("run aborted")
		}
		c.cond.Wait()
	}
	if len(c.c2s.buf) == 0 {
		return 0, fmt.Errorf("EOF")
	}
	n := copy(b, c.c2s.buf)
	c.c2s.buf = c.c2s.buf[n:]
	return n, nil
}

func (c *simConn) Write(b []byte) (int, error) {
	c.mu.Lock()
	defer c.mu.Unlock()
	if c.s2c.closed {
		return 0, fmt.Errorf("closed")
	}
	c.s2c.buf = append(c.s2c.buf, b...)
	c.cond.Broadcast()
	return len(b), nil
}

func (c *simConn) Close() error {
	c.mu.Lock()
	defer c.mu.Unlock()
	c.s2c.closed, c.c2s.closed = true, true
	c.cond.Broadcast()
	return nil
}

func (c *simConn) LocalAddr() net.Addr                { return simAddr("server") }
func (c *simConn) RemoteAddr() net.Addr               { return simAddr(c.name) }
func (c *simConn) SetDeadline(t time.Time) error      { return nil }
func (c *simConn) SetReadDeadline(t time.Time) error  { return nil }
func (c *simConn) SetWriteDeadline(t time.Time) error { return nil }

// client side
func (c *simConn) send(line string) {
	c.mu.Lock()
	c.c2s.buf = append(c.c2s.buf, []byte(line+"\n")...)
	c.cond.Broadcast()
	c.mu.Unlock()
}

// recv waits for one response (terminated by an empty line); ok=false if the
// connection ended instead.
func (c *simConn) recv() (string, bool) {
	c.mu.Lock()
	defer c.mu.Unlock()
	for {
		if i := strings.Index(string(c.s2c.buf), "\n\n"); i >= 0 {
			res := string(c.s2c.buf[:i])
			c.s2c.buf = c.s2c.buf[i+2:]
			return res, true
		}
		if c.s2c.closed || c.serverGone || simrt.Failed() {
			return "", false
		}
		c.cond.Wait()
	}
}

func (c *simConn) gone() {
	c.mu.Lock()
	c.serverGone = true
	c.cond.Broadcast()
	c.mu.Unlock()
}

// ---------------------------------------------------------------------------

var cliDir string

func cliWorkDir() string {
	if cliDir == "" {
		cliDir = filepath.Join("/tmp/ecalverif", fmt.Sprintf("cli-%d-h", os.Getpid()))
		if err := os.MkdirAll(cliDir, 0755); err != nil {
			panic(err)
		}
		if err := os.Chdir(cliDir); err != nil {
			panic(err)
		}
	}
	return cliDir
}

type cliResponse struct {
	raw string
	obj map[string]interface{}
}

// cliExchange sends one line and checks the shape of the answer.
func cliExchange(c *simConn, prop, line string) (*cliResponse, bool) {
	simrt.Note("%s sends %q", c.name, line)
	c.send(line)
	raw, ok := c.recv()
	if !ok {
		return nil, false
	}
	var obj map[string]interface{}
	if err := json.Unmarshal([]byte(raw), &obj); err != nil {
		simrt.Fail("oracle:not-json", "cli-not-json/"+firstWord(line), "the debug server answered %q with something that is not a JSON object: %v\n%s", line, err, clip(raw))
	}
	if de, isErr := obj["DebuggerError"].(string); isErr && (strings.HasPrefix(de, "json:") || strings.Contains(de, "unsupported value") || strings.Contains(de, "unsupported type")) {
		simrt.Fail("oracle:not-json", "not-json/"+firstWord(strings.TrimPrefix(line, "##")), "result of debugger command %q is not JSON-encodable: %s", line, de)
	}
	if enc, isEnc := obj["EncodedOutput"].(string); isEnc {
		if b, err := base64.StdEncoding.DecodeString(enc); err == nil {
			obj["decoded"] = string(b)
		}
	}
	return &cliResponse{raw, obj}, true
}

// cliCheckReported: when nothing else can run, every thread that waits inside the
// debugger for a continue command is one that status reports as suspended - a thread
// that waits unreported can never be resumed by a client.
func cliCheckReported(reported []string, quietBefore bool) {
	// (nothing could run before status was asked for and nothing can run now: the
	// answer describes the present state)
	if !quietBefore || !simrt.OthersQuiescent() {
		return
	}
	waiting := 0
	var who []string
	for _, b := range simrt.BlockedTasks() {
		if strings.Contains(b, "waitForContinue") {
			waiting++
			who = append(who, b)
		}
	}
	if waiting > len(reported) {
		simrt.Fail("oracle:thread-not-reported", "suspended-thread-not-reported",
			"%d thread(s) wait inside the debugger for a continue command, status reports %d suspended thread(s) %v: %s", waiting, len(reported), reported, strings.Join(who, "; "))
	}
}

func cliSuspended(r *cliResponse) []string {
	var out []string
	th, _ := r.obj["threads"].(map[string]interface{})
	for tid, v := range th {
		m, _ := v.(map[string]interface{})
		if running, ok := m["threadRunning"].(bool); ok && !running {
			out = append(out, tid)
		}
	}
	sortStrings(out)
	return out
}

func sortStrings(s []string) {
	for i := 1; i < len(s); i++ {
		for j := i; j > 0 && (len(s[j]) < len(s[j-1]) || (len(s[j]) == len(s[j-1]) && s[j] < s[j-1])); j-- {
			s[j], s[j-1] = s[j-1], s[j]
		}
	}
}

func cliRun(p *dbgPlan, prop string) {
	dir := cliWorkDir()
	src, _ := dbgProgram(p)
	if err := os.WriteFile(filepath.Join(dir, cliEntry), []byte(src+"\n"), 0644); err != nil {
		simrt.Fail("oracle:setup", "setup", "cannot write the entry file: %v", err)
	}
	engine.UnitTestResetIDs()
	config.Config[config.WorkerCount] = p.Workers
	logger := util.NewMemoryLogger(1000)
	ci := tool.NewCLIInterpreter()
	empty, level, wd := "", "Error", "."
	ci.Dir, ci.LogFile, ci.LogLevel = &wd, &empty, &level
	ci.LoadPlugins = false
	ci.EntryFile = cliEntry
	ci.LogOut = &strings.Builder{}
	ci.RuntimeProvider = interpreter.NewECALRuntimeProvider("sim console", &util.FileImportLocator{Root: dir}, logger)
	ci.RuntimeProvider.Cron.Stop()
	di := tool.NewCLIDebugInterpreter(ci)
	f, addr := false, "sim"
	bos, boe := p.CLI.BreakOnStart, p.CLI.BreakOnError
	di.DebugServerAddr, di.RunDebugServer, di.EchoDebugServer, di.Interactive = &addr, &f, &f, &f
	di.BreakOnStart, di.BreakOnError = &bos, &boe
	di.LogOut = &strings.Builder{}

	// the console: creates the debugger and loads the entry file (may suspend on start;
	// may be ended by a reload that stops all threads)
	consoleDone := &hbFlag{}
	simrt.Go("console", func() {
		defer consoleDone.set()
		err := di.Interpret()
		simrt.Note("console: Interpret returned %v", err)
	})
	// Interpret() attaches the debugger before anything runs; connections are only served
	// once it exists (the real server is started after that point too)
	for (ci.RuntimeProvider.Debugger == nil || ci.CustomHandler == nil) && !consoleDone.get() {
		simrt.Yield()
	}

	var clients simsync.WaitGroup
	var conns []*simConn
	serve := func(name string) *simConn {
		c := newSimConn(name)
		conns = append(conns, c)
		simrt.Go("server-"+name, func() {
			defer c.gone()
			tool.VerifHandleConnection(di, c)
		})
		return c
	}
	clientsDone := &hbFlag{}
	lastSuspended := []string{}
	for i, lines := range p.CLI.Conns {
		lines := lines
		c := serve(fmt.Sprintf("client%d", i))
		clients.Add(1)
		simrt.Go(c.name, func() {
			defer clients.Done()
			for _, line := range lines {
				if strings.Contains(line, "$T") {
					tid := "1"
					if len(lastSuspended) > 0 {
						tid = lastSuspended[simrt.Choose(len(lastSuspended))]
					}
					line = strings.ReplaceAll(line, "$T", tid)
				}
				if _, ok := cliExchange(c, prop, line); !ok {
					// the thread serving this connection was ended (a reload stops all
					// suspended threads, also one that evaluates a console line)
					simrt.Count("connection_thread_ended_by_reload")
					return
				}
			}
			c.send("quit")
		})
	}
	if p.CLI.Reloads > 0 {
		// the console user reloads the interpreter: Finish, Reset, stop all threads, evaluate
		// the entry file again (on a new thread, which may suspend on start), Start. One
		// reload at a time and only after the initial load: overlapping loads are outside
		// what C15/C16 state (see DESIGN.md, observations)
		clients.Add(1)
		simrt.Go("console-user", func() {
			defer clients.Done()
			for !consoleDone.get() {
				simrt.Yield()
			}
			tid := ci.RuntimeProvider.NewThreadID()
			for k := 0; k < p.CLI.Reloads; k++ {
				for y := simrt.Choose(6); y > 0; y-- {
					simrt.Yield()
				}
				term := &memTerm{}
				simrt.Count("fault_console_reload")
				simrt.Note("console user types @reload")
				ci.HandleInput(term, "@reload", tid)
				for !strings.Contains(term.b.String(), "Interpreter reloaded") {
					simrt.Yield()
				}
			}
		})
	}
	// the resumer
	resumer := serve("resumer")
	resumerDone := &hbFlag{}
	simrt.Go("resumer", func() {
		defer resumerDone.set()
		idle := 0
		for !(clientsDone.get() && consoleDone.get()) {
			quiet := simrt.OthersQuiescent()
			r, ok := cliExchange(resumer, prop, "##status")
			if !ok {
				simrt.Fail("oracle:harness", "resumer-lost", "the connection of the resumer ended")
			}
			susp := cliSuspended(r)
			lastSuspended = susp
			cliCheckReported(susp, quiet)
			if len(susp) == 0 && simrt.OthersQuiescent() {
				idle++
				if idle >= 3 {
					simrt.Fail("oracle:session-stuck", "session-stuck", "no thread is reported suspended, nothing else can run, yet the session is not over (console done: %v, clients done: %v). blocked: %s",
						consoleDone.get(), clientsDone.get(), strings.Join(simrt.BlockedTasks(), "; "))
				}
			} else {
				idle = 0
			}
			for _, tid := range susp {
				cmd := []string{"resume", "stepover", "stepin", "stepout"}[simrt.Choose(4)]
				simrt.Count("fault_debug_cont_" + cmd)
				if _, ok := cliExchange(resumer, prop, fmt.Sprintf("##cont %s %s", tid, cmd)); !ok {
					simrt.Fail("oracle:harness", "resumer-lost", "the connection of the resumer ended")
				}
			}
			simrt.Yield()
		}
	})
	clients.Wait()
	clientsDone.set()
	for !resumerDone.get() {
		simrt.Yield()
	}
	// reload goroutines may still be at work; whatever they leave suspended is resumed
	for round := 0; ; round++ {
		if simrt.OthersQuiescent() {
			r, ok := cliExchange(resumer, prop, "##status")
			if !ok {
				simrt.Fail("oracle:harness", "resumer-lost", "the connection of the resumer ended")
			}
			susp := cliSuspended(r)
			cliCheckReported(susp, true)
			if len(susp) == 0 && simrt.OthersQuiescent() {
				break
			}
			for _, tid := range susp {
				cliExchange(resumer, prop, fmt.Sprintf("##cont %s resume", tid))
			}
		}
		simrt.Yield()
	}
	// the debugger must still answer
	if r, ok := cliExchange(resumer, prop, "##status"); !ok || r.obj["threads"] == nil {
		simrt.Fail("oracle:status", "status-shape", "status at the end of the session has no thread table")
	}
	resumer.send("quit")
	for _, c := range conns {
		c.Close()
	}
	simrt.WaitQuiescent()
	ci.RuntimeProvider.Debugger.StopThreads(0)
	ci.RuntimeProvider.Processor.Finish()
	simrt.Count("cli_sessions_checked")
}
