package main

import (
	"fmt"

	"github.com/krotik/ecal/config"
	"github.com/krotik/ecal/engine"
	"github.com/krotik/ecal/interpreter"
	"github.com/krotik/ecal/parser"
	"github.com/krotik/ecal/scope"
	"github.com/krotik/ecal/util"
	"simrt"
)

// goFunc is a Go function callable from ECAL (probe / bracket functions of the
// harness).
type goFunc struct {
	name string
	f    func(tid uint64, args []interface{}) (interface{}, error)
	fis  func(is map[string]interface{}, tid uint64, args []interface{}) (interface{}, error) // variant that sees the instance state (monitor)
}

func (g *goFunc) Run(instanceID string, vs parser.Scope, is map[string]interface{}, tid uint64, args []interface{}) (interface{}, error) {
	if g.fis != nil {
		return g.fis(is, tid, args)
	}
	return g.f(tid, args)
}

func (g *goFunc) DocString() (string, error) { return g.name, nil }
func (g *goFunc) String() string             { return "gofunc:" + g.name }
func (g *goFunc) MarshalJSON() ([]byte, error) {
	return []byte(fmt.Sprintf("%q", g.String())), nil
}

// newProvider creates a runtime provider with the given worker count, a memory
// import locator and a memory logger; the real cron goroutine is stopped (stub,
// DESIGN.md 3.8).
func newProvider(workers int, files map[string]string) (*interpreter.ECALRuntimeProvider, *util.MemoryLogger) {
	engine.UnitTestResetIDs()
	config.Config[config.WorkerCount] = workers
	logger := util.NewMemoryLogger(1000)
	if files == nil {
		files = map[string]string{}
	}
	erp := interpreter.NewECALRuntimeProvider("sim", &util.MemoryImportLocator{Files: files}, logger)
	erp.Cron.Stop()
	return erp, logger
}

// loadProgram parses, validates and evaluates src in vs on a fresh thread id.
func loadProgram(erp *interpreter.ECALRuntimeProvider, name, src string, vs parser.Scope) (interface{}, error) {
	ast, err := parser.ParseWithRuntime(name, src, erp)
	if err != nil {
		return nil, err
	}
	if err := ast.Runtime.Validate(); err != nil {
		return nil, err
	}
	return ast.Runtime.Eval(vs, make(map[string]interface{}), erp.NewThreadID())
}

func newGlobalScope() parser.Scope { return scope.NewScope(scope.GlobalScope) }

func num(x interface{}) (float64, bool) {
	f, ok := x.(float64)
	return f, ok
}

// hbFlag is a flag shared between harness tasks that also carries the
// happens-before edge a real program would get from whatever it uses to learn that
// another thread is done (set = release, get = acquire).
type hbFlag struct{ v bool }

func (f *hbFlag) set() {
	f.v = true
	simrt.AtomicSync(f, true, true)
}

func (f *hbFlag) get() bool {
	simrt.AtomicSync(f, true, false)
	return f.v
}
