// Package bubble is the second engine (DESIGN.md 3.7): every parse runs inside a
// testing/synctest bubble of go1.26.8, which reports a goroutine that is still
// durably blocked when the bubble's root function returns (the stranded lexer)
// and a parser that waits forever for a token, without sleeps or goroutine
// counting.  It is built with `go test -c` against an UNINSTRUMENTED copy of
// /repo's working tree and driven through the BUBBLE_ARGS environment variable
// with the same modes as the scheduler harness.
package bubble

import (
	"encoding/json"
	"flag"
	"fmt"
	"os"
	"path/filepath"
	"runtime"
	"strings"
	"sync/atomic"
	"testing"
	"testing/synctest"
	"time"

	"ecalharness/harness/gen07"
	"github.com/krotik/ecal/interpreter"
	"github.com/krotik/ecal/parser"
	"github.com/krotik/ecal/util"
	"simrt"
)

type plan = gen07.Plan

type violation struct {
	Property string          `json:"property"`
	Class    string          `json:"class"`
	Sig      string          `json:"signature"`
	Msg      string          `json:"message"`
	BaseSeed uint64          `json:"base_seed"`
	RunIndex int64           `json:"run_index"`
	Plan     json.RawMessage `json:"plan"`
	Tape     []int           `json:"tape"`
	Minimal  bool            `json:"minimised"`
	Trace    []string        `json:"trace,omitempty"`
}

type outcome struct {
	class, sig, msg string
	tree            bool
}

var stamp int64

func TestBubble(t *testing.T) {
	args := strings.Fields(os.Getenv("BUBBLE_ARGS"))
	if len(args) == 0 {
		t.Skip("BUBBLE_ARGS not set")
	}
	fs := flag.NewFlagSet("bubble", flag.ContinueOnError)
	mode := fs.String("mode", "explore", "")
	fs.String("prop", "C07", "")
	seed := fs.Uint64("seed", 1, "")
	from := fs.Int64("from", 0, "")
	stride := fs.Int64("stride", 1, "")
	maxRuns := fs.Int64("runs", 1<<62, "")
	budget := fs.Duration("budget", 20*time.Second, "")
	tier := fs.String("tier", "quick", "")
	out := fs.String("out", "", "")
	in := fs.String("in", "", "")
	fs.String("sites", "", "")
	fs.Bool("trace", false, "")
	if err := fs.Parse(args); err != nil {
		fmt.Fprintln(os.Stderr, err)
		os.Exit(2)
	}
	go func() { // watchdog: a parse that spins is reported by the caller below; this is the backstop
		last, lastT := atomic.LoadInt64(&stamp), time.Now()
		for {
			time.Sleep(time.Second)
			if c := atomic.LoadInt64(&stamp); c != last {
				last, lastT = c, time.Now()
			} else if time.Since(lastT) > 120*time.Second {
				fmt.Fprintln(os.Stderr, "HARNESS-WATCHDOG: no progress for 120s")
				os.Exit(2)
			}
		}
	}()
	switch *mode {
	case "explore":
		os.Exit(explore(t, *seed, *from, *stride, *maxRuns, *budget, *tier, *out))
	case "replay":
		os.Exit(replay(t, *in))
	case "minimise":
		os.Exit(minimise(t, *in, *out, *budget))
	case "selftest":
		os.Exit(selftest(t, *seed, *from, *maxRuns, *tier))
	}
	os.Exit(2)
}

// ---------------------------------------------------------------------------
// one parse inside one bubble

func check(t *testing.T, input string) (res outcome) {
	atomic.AddInt64(&stamp, 1)
	done := make(chan outcome, 1)
	go func() {
		var o outcome
		defer func() {
			if r := recover(); r != nil {
				msg := fmt.Sprint(r)
				switch {
				case strings.Contains(msg, "blocked goroutines remain"):
					o = outcome{class: "goroutine-leak", sig: "lexer-goroutine-outlives-parse",
						msg: "when Parse returned, a goroutine started by it was still blocked (the lexer on its unbuffered token channel): " + msg}
				case strings.Contains(msg, "deadlock"):
					o = outcome{class: "parse-never-returns", sig: "parser-waits-forever",
						msg: "Parse never returns: every goroutine of the call is blocked: " + msg}
				default:
					if o.class == "" {
						o = outcome{class: "task-panic", sig: "panic:" + firstLine(msg), msg: "panic: " + msg}
					}
				}
			}
			done <- o
		}()
		synctest.Test(t, func(t *testing.T) {
			defer func() {
				if r := recover(); r != nil {
					o = outcome{class: "task-panic", sig: "panic@" + panicSite(), msg: fmt.Sprintf("panic while parsing / walking the tree: %v", r)}
				}
			}()
			o = parseAndWalk(input)
		})
	}()
	select {
	case o := <-done:
		if o.class == "" && o.tree {
			if w := walk(input); w.class != "" {
				return w
			}
		}
		return o
	case <-time.After(20 * time.Second):
		return outcome{class: "parse-never-returns", sig: "parser-spins", msg: "Parse did not return within 20s of wall clock (not blocked: spinning)"}
	}
}

func firstLine(s string) string {
	if i := strings.IndexByte(s, '\n'); i >= 0 {
		s = s[:i]
	}
	if len(s) > 80 {
		s = s[:80]
	}
	return s
}

func panicSite() string {
	pc := make([]uintptr, 32)
	n := runtime.Callers(3, pc)
	frames := runtime.CallersFrames(pc[:n])
	for {
		f, more := frames.Next()
		if strings.Contains(f.Function, "krotik/ecal") {
			return f.Function
		}
		if !more {
			break
		}
	}
	return "?"
}

func parseAndWalk(input string) outcome {
	ast, err := parser.Parse("c07", input)
	if (ast == nil) == (err == nil) {
		return outcome{class: "oracle:tree-xor-error", sig: "tree-xor-error", msg: fmt.Sprintf("Parse returned tree=%v error=%v (want exactly one)", ast != nil, err)}
	}
	if err != nil {
		// the error must be a positioned parser error (the exact position is C18's subject)
		if _, ok := err.(*parser.Error); !ok {
			return outcome{class: "oracle:error-kind", sig: "error-not-positioned", msg: fmt.Sprintf("Parse returned an error that carries no source position: %T %v", err, err)}
		}
		return outcome{}
	}
	if msg := gen07.Shape(ast, "root"); msg != "" {
		return outcome{class: "oracle:tree-shape", sig: "tree-shape/" + strings.SplitN(msg, ":", 2)[0], msg: msg, tree: true}
	}
	return outcome{tree: true}
}

var walkErp *interpreter.ECALRuntimeProvider

// walk lets the consumers (pretty printer, validation) walk a returned tree;
// it runs outside the bubble (the runtime provider owns a cron goroutine).
func walk(input string) (o outcome) {
	defer func() {
		if r := recover(); r != nil {
			o = outcome{class: "task-panic", sig: "panic@" + panicSite(), msg: fmt.Sprintf("panic while a consumer walked the returned tree: %v", r), tree: true}
		}
	}()
	ast, err := parser.Parse("c07", input)
	if err != nil {
		return outcome{}
	}
	if _, perr := parser.PrettyPrint(ast); perr != nil && strings.Contains(perr.Error(), "Nil pointer") {
		return outcome{class: "oracle:tree-shape", sig: "tree-shape/nil", msg: "PrettyPrint found a nil node: " + perr.Error(), tree: true}
	}
	if walkErp == nil {
		walkErp = interpreter.NewECALRuntimeProvider("c07", &util.MemoryImportLocator{Files: map[string]string{}}, util.NewNullLogger())
		walkErp.Cron.Stop()
	}
	if ast2, err2 := parser.ParseWithRuntime("c07", input, walkErp); err2 == nil {
		_ = ast2.Runtime.Validate()
	}
	return outcome{tree: true}
}

// ---------------------------------------------------------------------------

func salt() uint64 { return 0xC07C07 }

func explore(t *testing.T, base uint64, from, stride, maxRuns int64, budget time.Duration, tier, outDir string) int {
	start := time.Now()
	type stats struct {
		Property   string            `json:"property"`
		Runs       int64             `json:"runs"`
		Nontrivial int64             `json:"nontrivial_runs"`
		Counters   map[string]int64  `json:"counters"`
		Policies   map[string]int64  `json:"policies"`
		WallS      float64           `json:"wall_s"`
		Samples    []json.RawMessage `json:"samples"`
		Violations int               `json:"violations"`
	}
	st := stats{Property: "C07", Counters: map[string]int64{}, Policies: map[string]int64{}}
	hashes := map[uint64]struct{}{}
	seen := map[string]bool{}
	var viols []violation
	for i, n := from, int64(0); n < maxRuns; i, n = i+stride, n+1 {
		if n%8 == 0 && time.Since(start) > budget {
			break
		}
		r := simrt.NewRNG(simrt.Mix(base, salt(), uint64(i)))
		p := gen07.GenInput(r, tier)
		o := check(t, p.Input)
		st.Runs++
		st.Policies[p.Kind]++
		if o.tree {
			st.Counters["returned_tree"]++
		} else if o.class == "" {
			st.Counters["returned_error"]++
		}
		ntok := len(strings.Fields(p.Input))
		if ntok >= 4 {
			st.Nontrivial++
			var h uint64 = 1469598103934665603
			for k := 0; k < len(p.Input); k++ {
				h = (h ^ uint64(p.Input[k])) * 1099511628211
			}
			hashes[h] = struct{}{}
		}
		if len(st.Samples) < 3 && p.Kind != "valid" && ntok >= 4 {
			sj, _ := json.Marshal(map[string]interface{}{"run_index": i, "kind": p.Kind, "input": p.Input, "returned_tree": o.tree})
			st.Samples = append(st.Samples, sj)
		}
		if o.class != "" {
			st.Violations++
			st.Counters["viol_"+o.class]++
			if !seen[o.class+"|"+o.sig] {
				seen[o.class+"|"+o.sig] = true
				pj, _ := json.Marshal(p)
				viols = append(viols, violation{Property: "C07", Class: o.class, Sig: o.sig, Msg: o.msg, BaseSeed: base, RunIndex: i, Plan: pj, Tape: []int{}})
			}
			if o.sig == "parser-spins" {
				break // the spinning goroutine cannot be stopped: report and leave
			}
		}
	}
	st.WallS = time.Since(start).Seconds()
	if outDir != "" {
		os.MkdirAll(outDir, 0755)
		tag := fmt.Sprintf("C07-%d", from)
		sb, _ := json.Marshal(st)
		os.WriteFile(filepath.Join(outDir, "stats-"+tag+".json"), sb, 0644)
		var hb strings.Builder
		for h := range hashes {
			fmt.Fprintf(&hb, "%016x\n", h)
		}
		os.WriteFile(filepath.Join(outDir, "hashes-"+tag+".txt"), []byte(hb.String()), 0644)
		for k, v := range viols {
			vb, _ := json.MarshalIndent(v, "", " ")
			os.WriteFile(filepath.Join(outDir, fmt.Sprintf("viol-%s-%d.json", tag, k)), vb, 0644)
		}
	}
	if len(viols) > 0 {
		return 1
	}
	return 0
}

func load(path string) (*violation, *plan, error) {
	b, err := os.ReadFile(path)
	if err != nil {
		return nil, nil, err
	}
	var v violation
	if err := json.Unmarshal(b, &v); err != nil {
		return nil, nil, err
	}
	var p plan
	if err := json.Unmarshal(v.Plan, &p); err != nil {
		return nil, nil, err
	}
	return &v, &p, nil
}

func replay(t *testing.T, path string) int {
	v, p, err := load(path)
	if err != nil {
		fmt.Fprintln(os.Stderr, "replay:", err)
		return 2
	}
	o := check(t, p.Input)
	fmt.Printf("replay: input %q\n  class=%q signature=%q\n  %s\n", p.Input, o.class, o.sig, o.msg)
	if o.class == v.Class && o.sig == v.Sig {
		fmt.Printf("REPRODUCED property=C07 class=%s signature=%s\n", v.Class, v.Sig)
		return 1
	}
	if o.class != "" {
		fmt.Printf("DIFFERENT-FAILURE property=C07 recorded=%s/%s got=%s/%s\n", v.Class, v.Sig, o.class, o.sig)
		return 3
	}
	fmt.Println("NOT-REPRODUCED property=C07")
	return 0
}

// minimise shrinks the input (drop lines, drop tokens, drop bytes) while the same
// violation persists.
func minimise(t *testing.T, inPath, outPath string, budget time.Duration) int {
	v, p, err := load(inPath)
	if err != nil {
		fmt.Fprintln(os.Stderr, "minimise:", err)
		return 2
	}
	start := time.Now()
	fails := func(s string) bool {
		o := check(t, s)
		return o.class == v.Class && o.sig == v.Sig
	}
	if !fails(p.Input) {
		fmt.Fprintln(os.Stderr, "minimise: recorded violation does not reproduce")
		return 2
	}
	cur := p.Input
	if v.Sig != "parser-spins" {
		for _, sep := range []string{"\n", " ", ""} {
			progress := true
			for progress && time.Since(start) < budget {
				progress = false
				var parts []string
				if sep == "" {
					parts = strings.Split(cur, "")
				} else {
					parts = strings.Split(cur, sep)
				}
				for size := len(parts) / 2; size >= 1 && !progress; size /= 2 {
					for i := 0; i+size <= len(parts) && time.Since(start) < budget; i += size {
						cand := strings.Join(append(append([]string(nil), parts[:i]...), parts[i+size:]...), sep)
						if cand != cur && fails(cand) {
							cur = cand
							progress = true
							break
						}
					}
				}
			}
		}
	}
	o := check(t, cur)
	pj, _ := json.Marshal(plan{cur, p.Kind})
	v.Plan, v.Msg, v.Minimal = pj, o.msg, true
	v.Trace = []string{fmt.Sprintf("parser.Parse(%q)", cur)}
	vb, _ := json.MarshalIndent(v, "", " ")
	if err := os.WriteFile(outPath, vb, 0644); err != nil {
		return 2
	}
	return 0
}

func selftest(t *testing.T, base uint64, from, runs int64, tier string) int {
	for i := from; i < from+runs; i++ {
		r := simrt.NewRNG(simrt.Mix(base, salt(), uint64(i)))
		p := gen07.GenInput(r, tier)
		o := check(t, p.Input)
		var h uint64 = 1469598103934665603
		for k := 0; k < len(p.Input); k++ {
			h = (h ^ uint64(p.Input[k])) * 1099511628211
		}
		fmt.Printf("%d class=%q sig=%q input=%016x/%d tree=%v\n", i, o.class, o.sig, h, len(p.Input), o.tree)
	}
	return 0
}
