// Package bubble is the second engine (DESIGN.md 3.7): every parse runs inside a
// testing/synctest bubble of go1.26.8, which reports a goroutine that is still
// durably blocked when the bubble's root function returns (the stranded lexer)
// and a parser that waits forever for a token, without sleeps or goroutine
// counting.  It is built with `go test -c` against an UNINSTRUMENTED copy of
// /repo's working tree and driven through the BUBBLE_ARGS environment variable
// with the same modes as the scheduler harness.
package bubble

import (
	"encoding/json"
	"flag"
	"fmt"
	"os"
	"path/filepath"
	"runtime"
	"sort"
	"strings"
	"sync/atomic"
	"testing"
	"testing/synctest"
	"time"

	"github.com/krotik/ecal/interpreter"
	"github.com/krotik/ecal/parser"
	"github.com/krotik/ecal/util"
	"simrt"
)

type plan struct {
	Input string `json:"input"`
	Kind  string `json:"kind"` // valid | mutated | truncated | raw
}

type violation struct {
	Property string          `json:"property"`
	Class    string          `json:"class"`
	Sig      string          `json:"signature"`
	Msg      string          `json:"message"`
	BaseSeed uint64          `json:"base_seed"`
	RunIndex int64           `json:"run_index"`
	Plan     json.RawMessage `json:"plan"`
	Tape     []int           `json:"tape"`
	Minimal  bool            `json:"minimised"`
	Trace    []string        `json:"trace,omitempty"`
}

type outcome struct {
	class, sig, msg string
	tree            bool
}

var stamp int64

func TestBubble(t *testing.T) {
	args := strings.Fields(os.Getenv("BUBBLE_ARGS"))
	if len(args) == 0 {
		t.Skip("BUBBLE_ARGS not set")
	}
	fs := flag.NewFlagSet("bubble", flag.ContinueOnError)
	mode := fs.String("mode", "explore", "")
	fs.String("prop", "C07", "")
	seed := fs.Uint64("seed", 1, "")
	from := fs.Int64("from", 0, "")
	stride := fs.Int64("stride", 1, "")
	maxRuns := fs.Int64("runs", 1<<62, "")
	budget := fs.Duration("budget", 20*time.Second, "")
	tier := fs.String("tier", "quick", "")
	out := fs.String("out", "", "")
	in := fs.String("in", "", "")
	fs.String("sites", "", "")
	fs.Bool("trace", false, "")
	if err := fs.Parse(args); err != nil {
		fmt.Fprintln(os.Stderr, err)
		os.Exit(2)
	}
	go func() { // watchdog: a parse that spins is reported by the caller below; this is the backstop
		last, lastT := atomic.LoadInt64(&stamp), time.Now()
		for {
			time.Sleep(time.Second)
			if c := atomic.LoadInt64(&stamp); c != last {
				last, lastT = c, time.Now()
			} else if time.Since(lastT) > 120*time.Second {
				fmt.Fprintln(os.Stderr, "HARNESS-WATCHDOG: no progress for 120s")
				os.Exit(2)
			}
		}
	}()
	switch *mode {
	case "explore":
		os.Exit(explore(t, *seed, *from, *stride, *maxRuns, *budget, *tier, *out))
	case "replay":
		os.Exit(replay(t, *in))
	case "minimise":
		os.Exit(minimise(t, *in, *out, *budget))
	case "selftest":
		os.Exit(selftest(t, *seed, *from, *maxRuns, *tier))
	}
	os.Exit(2)
}

// ---------------------------------------------------------------------------
// one parse inside one bubble

func check(t *testing.T, input string) (res outcome) {
	atomic.AddInt64(&stamp, 1)
	done := make(chan outcome, 1)
	go func() {
		var o outcome
		defer func() {
			if r := recover(); r != nil {
				msg := fmt.Sprint(r)
				switch {
				case strings.Contains(msg, "blocked goroutines remain"):
					o = outcome{class: "goroutine-leak", sig: "lexer-goroutine-outlives-parse",
						msg: "when Parse returned, a goroutine started by it was still blocked (the lexer on its unbuffered token channel): " + msg}
				case strings.Contains(msg, "deadlock"):
					o = outcome{class: "parse-never-returns", sig: "parser-waits-forever",
						msg: "Parse never returns: every goroutine of the call is blocked: " + msg}
				default:
					if o.class == "" {
						o = outcome{class: "task-panic", sig: "panic:" + firstLine(msg), msg: "panic: " + msg}
					}
				}
			}
			done <- o
		}()
		synctest.Test(t, func(t *testing.T) {
			defer func() {
				if r := recover(); r != nil {
					o = outcome{class: "task-panic", sig: "panic@" + panicSite(), msg: fmt.Sprintf("panic while parsing / walking the tree: %v", r)}
				}
			}()
			o = parseAndWalk(input)
		})
	}()
	select {
	case o := <-done:
		if o.class == "" && o.tree {
			if w := walk(input); w.class != "" {
				return w
			}
		}
		return o
	case <-time.After(20 * time.Second):
		return outcome{class: "parse-never-returns", sig: "parser-spins", msg: "Parse did not return within 20s of wall clock (not blocked: spinning)"}
	}
}

func firstLine(s string) string {
	if i := strings.IndexByte(s, '\n'); i >= 0 {
		s = s[:i]
	}
	if len(s) > 80 {
		s = s[:80]
	}
	return s
}

func panicSite() string {
	pc := make([]uintptr, 32)
	n := runtime.Callers(3, pc)
	frames := runtime.CallersFrames(pc[:n])
	for {
		f, more := frames.Next()
		if strings.Contains(f.Function, "krotik/ecal") {
			return f.Function
		}
		if !more {
			break
		}
	}
	return "?"
}

func parseAndWalk(input string) outcome {
	ast, err := parser.Parse("c07", input)
	if (ast == nil) == (err == nil) {
		return outcome{class: "oracle:tree-xor-error", sig: "tree-xor-error", msg: fmt.Sprintf("Parse returned tree=%v error=%v (want exactly one)", ast != nil, err)}
	}
	if err != nil {
		// the error must be a positioned parser error (the exact position is C18's subject)
		if _, ok := err.(*parser.Error); !ok {
			return outcome{class: "oracle:error-kind", sig: "error-not-positioned", msg: fmt.Sprintf("Parse returned an error that carries no source position: %T %v", err, err)}
		}
		return outcome{}
	}
	if msg := shape(ast, "root"); msg != "" {
		return outcome{class: "oracle:tree-shape", sig: "tree-shape/" + strings.SplitN(msg, ":", 2)[0], msg: msg, tree: true}
	}
	return outcome{tree: true}
}

var walkErp *interpreter.ECALRuntimeProvider

// walk lets the consumers (pretty printer, validation) walk a returned tree;
// it runs outside the bubble (the runtime provider owns a cron goroutine).
func walk(input string) (o outcome) {
	defer func() {
		if r := recover(); r != nil {
			o = outcome{class: "task-panic", sig: "panic@" + panicSite(), msg: fmt.Sprintf("panic while a consumer walked the returned tree: %v", r), tree: true}
		}
	}()
	ast, err := parser.Parse("c07", input)
	if err != nil {
		return outcome{}
	}
	if _, perr := parser.PrettyPrint(ast); perr != nil && strings.Contains(perr.Error(), "Nil pointer") {
		return outcome{class: "oracle:tree-shape", sig: "tree-shape/nil", msg: "PrettyPrint found a nil node: " + perr.Error(), tree: true}
	}
	if walkErp == nil {
		walkErp = interpreter.NewECALRuntimeProvider("c07", &util.MemoryImportLocator{Files: map[string]string{}}, util.NewNullLogger())
		walkErp.Cron.Stop()
	}
	if ast2, err2 := parser.ParseWithRuntime("c07", input, walkErp); err2 == nil {
		_ = ast2.Runtime.Validate()
	}
	return outcome{tree: true}
}

// fixed-arity node kinds (language reference: binary operators take two operands,
// a key-value pair has a key and a value, an assignment a target and a value, ...)
var arity = map[string][2]int{
	parser.NodeKVP: {2, 2}, parser.NodeASSIGN: {2, 2}, parser.NodePRESET: {2, 2},
	parser.NodeGEQ: {2, 2}, parser.NodeLEQ: {2, 2}, parser.NodeNEQ: {2, 2}, parser.NodeEQ: {2, 2}, parser.NodeGT: {2, 2}, parser.NodeLT: {2, 2},
	parser.NodePLUS: {1, 2}, parser.NodeMINUS: {1, 2}, parser.NodeTIMES: {2, 2}, parser.NodeDIV: {2, 2}, parser.NodeMODINT: {2, 2}, parser.NodeDIVINT: {2, 2},
	parser.NodeAND: {2, 2}, parser.NodeOR: {2, 2}, parser.NodeNOT: {1, 1},
	parser.NodeLIKE: {2, 2}, parser.NodeIN: {2, 2}, parser.NodeHASPREFIX: {2, 2}, parser.NodeHASSUFFIX: {2, 2}, parser.NodeNOTIN: {2, 2},
	parser.NodeLET: {1, 1}, parser.NodeGUARD: {1, 1}, parser.NodeLOOP: {2, 2}, parser.NodeMUTEX: {2, 2}, parser.NodeIMPORT: {2, 2},
	parser.NodeCOMPACCESS: {1, 1}, parser.NodeRETURN: {0, 1},
	parser.NodeKINDMATCH: {1, 1}, parser.NodeSCOPEMATCH: {1, 1}, parser.NodeSTATEMATCH: {1, 1}, parser.NodePRIORITY: {1, 1}, parser.NodeSUPPRESSES: {1, 1},
	parser.NodeOTHERWISE: {1, 1}, parser.NodeFINALLY: {1, 1}, parser.NodeAS: {1, 1},
	parser.NodeSTRING: {0, 0}, parser.NodeNUMBER: {0, 0}, parser.NodeTRUE: {0, 0}, parser.NodeFALSE: {0, 0}, parser.NodeNULL: {0, 0},
	parser.NodeBREAK: {0, 0}, parser.NodeCONTINUE: {0, 0},
}

func shape(n *parser.ASTNode, path string) string {
	if n == nil {
		return "nil: nil node at " + path
	}
	if n.Name == "" {
		return "noname: node without a kind at " + path
	}
	for i, c := range n.Children {
		if c == nil {
			return fmt.Sprintf("nil: nil child %d of %s at %s", i, n.Name, path)
		}
	}
	k := len(n.Children)
	if a, ok := arity[n.Name]; ok && (k < a[0] || k > a[1]) {
		return fmt.Sprintf("arity-%s: %s node with %d children (want %d..%d) at %s", n.Name, n.Name, k, a[0], a[1], path)
	}
	kindOf := func(i int) string { return n.Children[i].Name }
	switch n.Name {
	case parser.NodeMAP:
		for i := range n.Children {
			if kindOf(i) != parser.NodeKVP {
				return fmt.Sprintf("map-child: map literal has a %s child where a key : value pair is required at %s", kindOf(i), path)
			}
		}
	case parser.NodeIF:
		if k < 2 || k%2 != 0 {
			return fmt.Sprintf("if-children: if node with %d children (want guard/statements pairs) at %s", k, path)
		}
		for i := 0; i < k; i += 2 {
			if kindOf(i) != parser.NodeGUARD || kindOf(i+1) != parser.NodeSTATEMENTS {
				return fmt.Sprintf("if-children: if node child pair %d is (%s, %s), want (guard, statements) at %s", i/2, kindOf(i), kindOf(i+1), path)
			}
		}
	case parser.NodeLOOP:
		if (kindOf(0) != parser.NodeGUARD && kindOf(0) != parser.NodeIN) || kindOf(1) != parser.NodeSTATEMENTS {
			return fmt.Sprintf("loop-children: loop node children are (%s, %s) at %s", kindOf(0), kindOf(1), path)
		}
	case parser.NodeMUTEX:
		if kindOf(0) != parser.NodeIDENTIFIER || kindOf(1) != parser.NodeSTATEMENTS {
			return fmt.Sprintf("mutex-children: mutex node children are (%s, %s) at %s", kindOf(0), kindOf(1), path)
		}
	case parser.NodeTRY:
		if k < 1 || kindOf(0) != parser.NodeSTATEMENTS {
			return fmt.Sprintf("try-children: try node does not start with statements at %s", path)
		}
		for i := 1; i < k; i++ {
			switch kindOf(i) {
			case parser.NodeEXCEPT, parser.NodeOTHERWISE, parser.NodeFINALLY:
			default:
				return fmt.Sprintf("try-children: try node has a %s child at %s", kindOf(i), path)
			}
		}
	case parser.NodeEXCEPT:
		if k < 1 || kindOf(k-1) != parser.NodeSTATEMENTS {
			return fmt.Sprintf("except-children: except node does not end with statements at %s", path)
		}
		for i := 0; i < k-1; i++ {
			// error type strings, then at most one `as <identifier>` or a bare identifier
			// (`except e {`) right before the block
			if kindOf(i) != parser.NodeSTRING && !((kindOf(i) == parser.NodeAS || kindOf(i) == parser.NodeIDENTIFIER) && i == k-2) {
				return fmt.Sprintf("except-children: except node has a %s child at position %d of %d at %s", kindOf(i), i, k, path)
			}
		}
	case parser.NodeAS:
		if kindOf(0) != parser.NodeIDENTIFIER {
			return fmt.Sprintf("as-children: as node child is %s, want identifier at %s", kindOf(0), path)
		}
	case parser.NodeOTHERWISE, parser.NodeFINALLY:
		if kindOf(0) != parser.NodeSTATEMENTS {
			return fmt.Sprintf("try-children: %s node child is %s at %s", n.Name, kindOf(0), path)
		}
	case parser.NodeFUNC:
		if k < 2 || kindOf(k-1) != parser.NodeSTATEMENTS || kindOf(k-2) != parser.NodePARAMS {
			return fmt.Sprintf("function-children: function node with %d children not ending in (params, statements) at %s", k, path)
		}
	case parser.NodeSINK:
		if k < 1 || kindOf(0) != parser.NodeIDENTIFIER {
			return fmt.Sprintf("sink-children: sink node does not start with its name at %s", path)
		}
	case parser.NodeIMPORT:
		if kindOf(0) != parser.NodeSTRING || kindOf(1) != parser.NodeIDENTIFIER {
			return fmt.Sprintf("import-children: import node children are (%s, %s) at %s", kindOf(0), kindOf(1), path)
		}
	}
	for i, c := range n.Children {
		if msg := shape(c, fmt.Sprintf("%s/%s[%d]", path, n.Name, i)); msg != "" {
			return msg
		}
	}
	return ""
}

// ---------------------------------------------------------------------------
// input generation

func stmt(r *simrt.RNG, depth int) string {
	n := r.Intn(9)
	a, b := 1+r.Intn(9), 1+r.Intn(9)
	inner := func() string {
		if depth >= 2 {
			return fmt.Sprintf("x%d := %d", n, a)
		}
		return stmt(r, depth+1)
	}
	ind := func(s string) string { return "    " + strings.ReplaceAll(s, "\n", "\n    ") }
	switch r.Intn(20) {
	case 0:
		return fmt.Sprintf("a%d := {\"x\": %d, \"y\": [%d, %d], %d: null}", n, a, a, b, b)
	case 1:
		return fmt.Sprintf("if %d < %d {\n%s\n} elif a%d == %d {\n%s\n} else {\n%s\n}", a, b, ind(inner()), n, b, ind(inner()), ind(inner()))
	case 2:
		return fmt.Sprintf("for i in range(%d, %d) {\n%s\n}", a, a+b, ind(inner()))
	case 3:
		return fmt.Sprintf("s%d := \"v={{%d+%d}}\\n\" + r\"raw{{x}}\"", n, a, b)
	case 4:
		return fmt.Sprintf("for c%d > 0 {\n    c%d := c%d - 1\n    if c%d == %d {\n        break\n    }\n    continue\n}", n, n, n, n, a)
	case 5:
		return fmt.Sprintf("func f%d(x, y=%d, z=\"s\") {\n%s\n    return x + y\n}", n, a, ind(inner()))
	case 6:
		return fmt.Sprintf("import \"lib%d.ecal\" as lib%d", n, n)
	case 7:
		return fmt.Sprintf("try {\n%s\n    raise(\"E%d\", \"x\", [%d])\n} except \"E%d\", \"F\" as e {\n%s\n} except {\n    log(e)\n} otherwise {\n%s\n} finally {\n%s\n}", ind(inner()), a, b, a, ind(inner()), ind(inner()), ind(inner()))
	case 8:
		return fmt.Sprintf("l%d := [{\"a\": %d}, [%d, {\"c\": [ ]}], -%d, not true, null]", n, a, b, a)
	case 9:
		return fmt.Sprintf("sink s%d\n    kindmatch [\"a.%d.*\"],\n    scopematch [\"s.t\"],\n    statematch {\"k\": %d, \"n\": null},\n    priority %d,\n    suppresses [\"s%d\"]\n{\n%s\n}", n, a, b, a%5, b, ind(inner()))
	case 10:
		return fmt.Sprintf("mutex m%d {\n%s\n}", n, ind(inner()))
	case 11:
		return fmt.Sprintf("r%d := f%d(%d, g(%d)[%d].k, \"a\")[1].b.c(%d)", n, n, a, b, a, b)
	case 12:
		return fmt.Sprintf("b%d := %d >= %d and (x%d != %d or not y like \"a.*\") and %d in [%d] and z notin l and s hasprefix \"p\" and s hassuffix \"q\"", n, a, b, n, a, a, b)
	case 13:
		return fmt.Sprintf("n%d := -%d + %d * (%d - %d) / %d // %d %% %d", n, a, b, a, b, a, b, a)
	case 14:
		return fmt.Sprintf("# comment %d\nc%d := %d /* inline */ + %d # trailing", a, n, a, b)
	case 15:
		return fmt.Sprintf("let v%d := %d\no%d.a.b[%d] := v%d", n, a, n, b, n)
	case 16:
		return fmt.Sprintf("[p%d, q%d] := [%d, %d]", n, n, a, b)
	case 17:
		return fmt.Sprintf("g%d := func (a) {\n    return a\n}", n)
	case 18:
		return fmt.Sprintf("for [k, v] in {\"a\": %d} {\n%s\n}", a, ind(inner()))
	default:
		return fmt.Sprintf("return %d", a)
	}
}

func validProgram(r *simrt.RNG, tier string) string {
	n := 1 + r.Intn(5)
	if tier == "thorough" {
		n = 1 + r.Intn(12)
	}
	var parts []string
	for i := 0; i < n; i++ {
		parts = append(parts, stmt(r, 0))
	}
	return strings.Join(parts, "\n")
}

var rawAlphabet = []string{"{", "}", "(", ")", "[", "]", ":=", ":", ",", ".", "\"", "'", "r\"", "{{", "}}", "#", "/*", "*/", "\n", " ", "\t", "\r",
	"if", "elif", "else", "for", "in", "func", "sink", "try", "except", "finally", "otherwise", "mutex", "import", "as", "let", "return", "and", "or", "not",
	"a", "b1", "1", "1.5", "-", "+", "*", "/", "//", "%", "==", "!=", ">=", "<", "\\", "\x00", "\x7f", "\xff", "\xc3", "\xe2\x82", "é", "€", "null", "true", "kindmatch", "priority"}

func genInput(r *simrt.RNG, tier string) plan {
	switch x := r.Intn(100); {
	case x < 25:
		return plan{validProgram(r, tier), "valid"}
	case x < 60:
		src := validProgram(r, tier)
		toks := parser.LexToList("gen", src)
		if len(toks) < 3 {
			return plan{src, "valid"}
		}
		// token boundaries
		var cuts []int
		for _, t := range toks {
			if t.Pos >= 0 && t.Pos <= len(src) {
				cuts = append(cuts, t.Pos)
			}
		}
		cuts = append(cuts, len(src))
		sort.Ints(cuts)
		seg := func(i int) string { return src[cuts[i]:cuts[i+1]] }
		n := len(cuts) - 1
		i := r.Intn(n)
		switch r.Intn(6) {
		case 0: // delete a token
			return plan{src[:cuts[i]] + src[cuts[i+1]:], "mutated"}
		case 1: // duplicate a token
			return plan{src[:cuts[i+1]] + seg(i) + src[cuts[i+1]:], "mutated"}
		case 2: // swap two adjacent tokens
			if i+2 <= n-1 {
				return plan{src[:cuts[i]] + seg(i+1) + seg(i) + src[cuts[i+2]:], "mutated"}
			}
			return plan{src[:cuts[i]], "truncated"}
		case 3: // stray closer / opener / newline
			return plan{src[:cuts[i]] + []string{"}", "{", ")", "(", "]", "[", "\n", ","}[r.Intn(8)] + src[cuts[i]:], "mutated"}
		case 4: // replace a token by a random fragment
			return plan{src[:cuts[i]] + rawAlphabet[r.Intn(len(rawAlphabet))] + " " + src[cuts[i+1]:], "mutated"}
		default: // truncate at a token boundary
			return plan{src[:cuts[i]], "truncated"}
		}
	default:
		n := 1 + r.Intn(30)
		var b strings.Builder
		for i := 0; i < n; i++ {
			b.WriteString(rawAlphabet[r.Intn(len(rawAlphabet))])
			if r.Bool(0.5) {
				b.WriteByte(' ')
			}
		}
		return plan{b.String(), "raw"}
	}
}

// ---------------------------------------------------------------------------

func salt() uint64 { return 0xC07C07 }

func explore(t *testing.T, base uint64, from, stride, maxRuns int64, budget time.Duration, tier, outDir string) int {
	start := time.Now()
	type stats struct {
		Property   string            `json:"property"`
		Runs       int64             `json:"runs"`
		Nontrivial int64             `json:"nontrivial_runs"`
		Counters   map[string]int64  `json:"counters"`
		Policies   map[string]int64  `json:"policies"`
		WallS      float64           `json:"wall_s"`
		Samples    []json.RawMessage `json:"samples"`
		Violations int               `json:"violations"`
	}
	st := stats{Property: "C07", Counters: map[string]int64{}, Policies: map[string]int64{}}
	hashes := map[uint64]struct{}{}
	seen := map[string]bool{}
	var viols []violation
	for i, n := from, int64(0); n < maxRuns; i, n = i+stride, n+1 {
		if n%8 == 0 && time.Since(start) > budget {
			break
		}
		r := simrt.NewRNG(simrt.Mix(base, salt(), uint64(i)))
		p := genInput(r, tier)
		o := check(t, p.Input)
		st.Runs++
		st.Policies[p.Kind]++
		if o.tree {
			st.Counters["returned_tree"]++
		} else if o.class == "" {
			st.Counters["returned_error"]++
		}
		ntok := len(strings.Fields(p.Input))
		if ntok >= 4 {
			st.Nontrivial++
			var h uint64 = 1469598103934665603
			for k := 0; k < len(p.Input); k++ {
				h = (h ^ uint64(p.Input[k])) * 1099511628211
			}
			hashes[h] = struct{}{}
		}
		if len(st.Samples) < 3 && p.Kind != "valid" && ntok >= 4 {
			sj, _ := json.Marshal(map[string]interface{}{"run_index": i, "kind": p.Kind, "input": p.Input, "returned_tree": o.tree})
			st.Samples = append(st.Samples, sj)
		}
		if o.class != "" {
			st.Violations++
			st.Counters["viol_"+o.class]++
			if !seen[o.class+"|"+o.sig] {
				seen[o.class+"|"+o.sig] = true
				pj, _ := json.Marshal(p)
				viols = append(viols, violation{Property: "C07", Class: o.class, Sig: o.sig, Msg: o.msg, BaseSeed: base, RunIndex: i, Plan: pj, Tape: []int{}})
			}
			if o.sig == "parser-spins" {
				break // the spinning goroutine cannot be stopped: report and leave
			}
		}
	}
	st.WallS = time.Since(start).Seconds()
	if outDir != "" {
		os.MkdirAll(outDir, 0755)
		tag := fmt.Sprintf("C07-%d", from)
		sb, _ := json.Marshal(st)
		os.WriteFile(filepath.Join(outDir, "stats-"+tag+".json"), sb, 0644)
		var hb strings.Builder
		for h := range hashes {
			fmt.Fprintf(&hb, "%016x\n", h)
		}
		os.WriteFile(filepath.Join(outDir, "hashes-"+tag+".txt"), []byte(hb.String()), 0644)
		for k, v := range viols {
			vb, _ := json.MarshalIndent(v, "", " ")
			os.WriteFile(filepath.Join(outDir, fmt.Sprintf("viol-%s-%d.json", tag, k)), vb, 0644)
		}
	}
	if len(viols) > 0 {
		return 1
	}
	return 0
}

func load(path string) (*violation, *plan, error) {
	b, err := os.ReadFile(path)
	if err != nil {
		return nil, nil, err
	}
	var v violation
	if err := json.Unmarshal(b, &v); err != nil {
		return nil, nil, err
	}
	var p plan
	if err := json.Unmarshal(v.Plan, &p); err != nil {
		return nil, nil, err
	}
	return &v, &p, nil
}

func replay(t *testing.T, path string) int {
	v, p, err := load(path)
	if err != nil {
		fmt.Fprintln(os.Stderr, "replay:", err)
		return 2
	}
	o := check(t, p.Input)
	fmt.Printf("replay: input %q\n  class=%q signature=%q\n  %s\n", p.Input, o.class, o.sig, o.msg)
	if o.class == v.Class && o.sig == v.Sig {
		fmt.Printf("REPRODUCED property=C07 class=%s signature=%s\n", v.Class, v.Sig)
		return 1
	}
	if o.class != "" {
		fmt.Printf("DIFFERENT-FAILURE property=C07 recorded=%s/%s got=%s/%s\n", v.Class, v.Sig, o.class, o.sig)
		return 3
	}
	fmt.Println("NOT-REPRODUCED property=C07")
	return 0
}

// minimise shrinks the input (drop lines, drop tokens, drop bytes) while the same
// violation persists.
func minimise(t *testing.T, inPath, outPath string, budget time.Duration) int {
	v, p, err := load(inPath)
	if err != nil {
		fmt.Fprintln(os.Stderr, "minimise:", err)
		return 2
	}
	start := time.Now()
	fails := func(s string) bool {
		o := check(t, s)
		return o.class == v.Class && o.sig == v.Sig
	}
	if !fails(p.Input) {
		fmt.Fprintln(os.Stderr, "minimise: recorded violation does not reproduce")
		return 2
	}
	cur := p.Input
	if v.Sig != "parser-spins" {
		for _, sep := range []string{"\n", " ", ""} {
			progress := true
			for progress && time.Since(start) < budget {
				progress = false
				var parts []string
				if sep == "" {
					parts = strings.Split(cur, "")
				} else {
					parts = strings.Split(cur, sep)
				}
				for size := len(parts) / 2; size >= 1 && !progress; size /= 2 {
					for i := 0; i+size <= len(parts) && time.Since(start) < budget; i += size {
						cand := strings.Join(append(append([]string(nil), parts[:i]...), parts[i+size:]...), sep)
						if cand != cur && fails(cand) {
							cur = cand
							progress = true
							break
						}
					}
				}
			}
		}
	}
	o := check(t, cur)
	pj, _ := json.Marshal(plan{cur, p.Kind})
	v.Plan, v.Msg, v.Minimal = pj, o.msg, true
	v.Trace = []string{fmt.Sprintf("parser.Parse(%q)", cur)}
	vb, _ := json.MarshalIndent(v, "", " ")
	if err := os.WriteFile(outPath, vb, 0644); err != nil {
		return 2
	}
	return 0
}

func selftest(t *testing.T, base uint64, from, runs int64, tier string) int {
	for i := from; i < from+runs; i++ {
		r := simrt.NewRNG(simrt.Mix(base, salt(), uint64(i)))
		p := genInput(r, tier)
		o := check(t, p.Input)
		var h uint64 = 1469598103934665603
		for k := 0; k < len(p.Input); k++ {
			h = (h ^ uint64(p.Input[k])) * 1099511628211
		}
		fmt.Printf("%d class=%q sig=%q input=%016x/%d tree=%v\n", i, o.class, o.sig, h, len(p.Input), o.tree)
	}
	return 0
}
