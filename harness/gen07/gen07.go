// Package gen07 generates the inputs of the C07 checks (both engines): valid
// programs, token- and byte-level mutations of them, and raw fragments.
package gen07

import (
	"fmt"
	"sort"
	"strings"

	"github.com/krotik/ecal/parser"
	"simrt"
)

// Plan is one input.
type Plan struct {
	Input string `json:"input"`
	Kind  string `json:"kind"` // valid | expr | deep | mutated | truncated | raw
}

// ---------------------------------------------------------------------------
// input generation

func stmt(r *simrt.RNG, depth int) string {
	n := r.Intn(9)
	a, b := 1+r.Intn(9), 1+r.Intn(9)
	inner := func() string {
		if depth >= 2 {
			return fmt.Sprintf("x%d := %d", n, a)
		}
		return stmt(r, depth+1)
	}
	ind := func(s string) string { return "    " + strings.ReplaceAll(s, "\n", "\n    ") }
	switch r.Intn(20) {
	case 0:
		return fmt.Sprintf("a%d := {\"x\": %d, \"y\": [%d, %d], %d: null}", n, a, a, b, b)
	case 1:
		return fmt.Sprintf("if %d < %d {\n%s\n} elif a%d == %d {\n%s\n} else {\n%s\n}", a, b, ind(inner()), n, b, ind(inner()), ind(inner()))
	case 2:
		return fmt.Sprintf("for i in range(%d, %d) {\n%s\n}", a, a+b, ind(inner()))
	case 3:
		return fmt.Sprintf("s%d := \"v={{%d+%d}}\\n\" + r\"raw{{x}}\"", n, a, b)
	case 4:
		return fmt.Sprintf("for c%d > 0 {\n    c%d := c%d - 1\n    if c%d == %d {\n        break\n    }\n    continue\n}", n, n, n, n, a)
	case 5:
		return fmt.Sprintf("func f%d(x, y=%d, z=\"s\") {\n%s\n    return x + y\n}", n, a, ind(inner()))
	case 6:
		return fmt.Sprintf("import \"lib%d.ecal\" as lib%d", n, n)
	case 7:
		return fmt.Sprintf("try {\n%s\n    raise(\"E%d\", \"x\", [%d])\n} except \"E%d\", \"F\" as e {\n%s\n} except {\n    log(e)\n} otherwise {\n%s\n} finally {\n%s\n}", ind(inner()), a, b, a, ind(inner()), ind(inner()), ind(inner()))
	case 8:
		return fmt.Sprintf("l%d := [{\"a\": %d}, [%d, {\"c\": [ ]}], -%d, not true, null]", n, a, b, a)
	case 9:
		return fmt.Sprintf("sink s%d\n    kindmatch [\"a.%d.*\"],\n    scopematch [\"s.t\"],\n    statematch {\"k\": %d, \"n\": null},\n    priority %d,\n    suppresses [\"s%d\"]\n{\n%s\n}", n, a, b, a%5, b, ind(inner()))
	case 10:
		return fmt.Sprintf("mutex m%d {\n%s\n}", n, ind(inner()))
	case 11:
		return fmt.Sprintf("r%d := f%d(%d, g(%d)[%d].k, \"a\")[1].b.c(%d)", n, n, a, b, a, b)
	case 12:
		return fmt.Sprintf("b%d := %d >= %d and (x%d != %d or not y like \"a.*\") and %d in [%d] and z notin l and s hasprefix \"p\" and s hassuffix \"q\"", n, a, b, n, a, a, b)
	case 13:
		return fmt.Sprintf("n%d := -%d + %d * (%d - %d) / %d // %d %% %d", n, a, b, a, b, a, b, a)
	case 14:
		return fmt.Sprintf("# comment %d\nc%d := %d /* inline */ + %d # trailing", a, n, a, b)
	case 15:
		return fmt.Sprintf("let v%d := %d\no%d.a.b[%d] := v%d", n, a, n, b, n)
	case 16:
		return fmt.Sprintf("[p%d, q%d] := [%d, %d]", n, n, a, b)
	case 17:
		return fmt.Sprintf("g%d := func (a) {\n    return a\n}", n)
	case 18:
		return fmt.Sprintf("for [k, v] in {\"a\": %d} {\n%s\n}", a, ind(inner()))
	default:
		return fmt.Sprintf("return %d", a)
	}
}

func validProgram(r *simrt.RNG, tier string) string {
	n := 1 + r.Intn(5)
	if tier == "thorough" {
		n = 1 + r.Intn(12)
	}
	var parts []string
	for i := 0; i < n; i++ {
		parts = append(parts, stmt(r, 0))
	}
	return strings.Join(parts, "\n")
}

var rawAlphabet = []string{";", "; ", "{", "}", "(", ")", "[", "]", ":=", ":", ",", ".", "\"", "'", "r\"", "{{", "}}", "#", "/*", "*/", "\n", " ", "\t", "\r",
	"if", "elif", "else", "for", "in", "func", "sink", "try", "except", "finally", "otherwise", "mutex", "import", "as", "let", "return", "and", "or", "not",
	"a", "b1", "1", "1.5", "e", "e+", "1e+", "1e", "2e-", "E+", "1.e+", ".5", "1e+5", "0x", "1..2", "-", "+", "*", "/", "//", "%", "==", "!=", ">=", "<", "\\", "\x00", "\x7f", "\xff", "\xc3", "\xe2\x82", "é", "€", "null", "true", "kindmatch", "priority"}

// expr draws an expression; every expression form can stand in every expression
// position (operand, argument, list item, map key, map value, index).  *broken counts
// down: when it reaches zero a map literal with an element that is not a key-value pair
// is produced at that position.
func expr(r *simrt.RNG, depth int, broken *int) string {
	sub := func() string { return expr(r, depth+1, broken) }
	if *broken >= 0 {
		*broken--
		if *broken < 0 {
			e := expr(r, depth+1, broken)
			switch r.Intn(4) {
			case 0:
				return "{" + e + "}"
			case 1:
				return "{\"a\": 1, " + e + "}"
			case 2:
				return "{" + e + ", \"b\": 2}"
			default:
				return "{ " + e + " : 1 : 2 }"
			}
		}
	}
	atom := func() string {
		switch r.Intn(12) {
		case 0:
			return fmt.Sprint(r.Intn(10))
		case 1:
			return "\"s\""
		case 2:
			return "x"
		case 3:
			return "foo()"
		case 4:
			return "a.b.init()"
		case 5:
			return "func () {\n}"
		case 6:
			return "func (a) {\n    return a\n}"
		case 7:
			return "[]"
		case 8:
			return "{}"
		case 9:
			return "null"
		case 10:
			return "now()"
		default:
			return "true"
		}
	}
	if depth >= 3 {
		return atom()
	}
	switch r.Intn(12) {
	case 0:
		return "[" + sub() + ", " + sub() + "]"
	case 1:
		return "{" + sub() + ": " + sub() + "}"
	case 2:
		return "{\"k\": " + sub() + ", " + sub() + ": " + sub() + "}"
	case 3:
		return "(" + sub() + ")"
	case 4:
		return sub() + " + " + sub()
	case 5:
		return "-" + sub()
	case 6:
		return "f(" + sub() + ", " + sub() + ")"
	case 7:
		return "g(" + sub() + ")[" + sub() + "].k"
	case 8:
		return "not " + sub()
	case 9:
		return sub() + " == " + sub()
	default:
		return atom()
	}
}

func exprStatement(r *simrt.RNG) string {
	broken := -1
	if r.Bool(0.6) {
		broken = r.Intn(8)
	}
	e := expr(r, 0, &broken)
	switch r.Intn(6) {
	case 0:
		return e
	case 1:
		return "return " + e
	case 2:
		return "if " + e + " {\n    x := 1\n}"
	case 3:
		return "for i in " + e + " {\n}"
	case 4:
		return "f(" + e + ")\n[a, b] := g()"
	default:
		return "v := " + e
	}
}

// GenInput draws one input.
func GenInput(r *simrt.RNG, tier string) Plan {
	switch x := r.Intn(100); {
	case x < 22:
		return Plan{validProgram(r, tier), "valid"}
	case x < 25:
		// deep nesting in one construct: parsing must stay (about) linear in the depth
		d := 20 + r.Intn(40)
		switch r.Intn(6) {
		case 0:
			return Plan{"v := " + strings.Repeat("{\"a\": ", d) + "1" + strings.Repeat("}", d), "deep"}
		case 1:
			return Plan{"v := " + strings.Repeat("[", d) + "1" + strings.Repeat("]", d), "deep"}
		case 2:
			return Plan{"v := " + strings.Repeat("(", d) + "1" + strings.Repeat(")", d), "deep"}
		case 3:
			return Plan{"v := " + strings.Repeat("{\"a\": [", d/2) + "1" + strings.Repeat("]}", d/2), "deep"}
		case 4:
			return Plan{strings.Repeat("if a {\n", d/2) + "x := 1\n" + strings.Repeat("}\n", d/2), "deep"}
		default:
			return Plan{"v := " + strings.Repeat("f(", d) + "1" + strings.Repeat(")", d), "deep"}
		}
	case x < 35:
		// expression forms in every expression position, often with one malformed map literal
		n := 1 + r.Intn(3)
		var parts []string
		for i := 0; i < n; i++ {
			parts = append(parts, exprStatement(r))
		}
		return Plan{strings.Join(parts, "\n"), "expr"}
	case x < 62:
		src := validProgram(r, tier)
		toks := parser.LexToList("gen", src)
		if len(toks) < 3 {
			return Plan{src, "valid"}
		}
		// token boundaries
		var cuts []int
		for _, t := range toks {
			if t.Pos >= 0 && t.Pos <= len(src) {
				cuts = append(cuts, t.Pos)
			}
		}
		cuts = append(cuts, len(src))
		sort.Ints(cuts)
		seg := func(i int) string { return src[cuts[i]:cuts[i+1]] }
		n := len(cuts) - 1
		i := r.Intn(n)
		switch r.Intn(10) {
		case 6: // truncate at an arbitrary byte
			return Plan{src[:r.Intn(len(src)+1)], "truncated"}
		case 7: // delete one byte
			j := r.Intn(len(src))
			return Plan{src[:j] + src[j+1:], "mutated"}
		case 8: // insert a raw fragment at an arbitrary byte, possibly at the very end
			j := r.Intn(len(src) + 1)
			if r.Bool(0.3) {
				j = len(src)
			}
			return Plan{src[:j] + rawAlphabet[r.Intn(len(rawAlphabet))] + src[j:], "mutated"}
		case 0: // delete a token
			return Plan{src[:cuts[i]] + src[cuts[i+1]:], "mutated"}
		case 1: // duplicate a token
			return Plan{src[:cuts[i+1]] + seg(i) + src[cuts[i+1]:], "mutated"}
		case 2: // swap two adjacent tokens
			if i+2 <= n-1 {
				return Plan{src[:cuts[i]] + seg(i+1) + seg(i) + src[cuts[i+2]:], "mutated"}
			}
			return Plan{src[:cuts[i]], "truncated"}
		case 5: // a comment at a token boundary (comments may stand between any two tokens)
			return Plan{src[:cuts[i]] + []string{"/* c */", " /* c */ ", "# c\n", "/**/"}[r.Intn(4)] + src[cuts[i]:], "mutated"}
		case 3: // stray closer / opener / newline
			return Plan{src[:cuts[i]] + []string{"}", "{", ")", "(", "]", "[", "\n", ",", ";", "; $"}[r.Intn(10)] + src[cuts[i]:], "mutated"}
		case 4: // replace a token by a random fragment
			return Plan{src[:cuts[i]] + rawAlphabet[r.Intn(len(rawAlphabet))] + " " + src[cuts[i+1]:], "mutated"}
		default: // truncate at a token boundary
			return Plan{src[:cuts[i]], "truncated"}
		}
	default:
		n := 1 + r.Intn(30)
		var b strings.Builder
		for i := 0; i < n; i++ {
			b.WriteString(rawAlphabet[r.Intn(len(rawAlphabet))])
			if r.Bool(0.5) {
				b.WriteByte(' ')
			}
		}
		return Plan{b.String(), "raw"}
	}
}

// fixed-arity node kinds (language reference: binary operators take two operands,
// a key-value pair has a key and a value, an assignment a target and a value, ...)
var arity = map[string][2]int{
	parser.NodeKVP: {2, 2}, parser.NodeASSIGN: {2, 2}, parser.NodePRESET: {2, 2},
	parser.NodeGEQ: {2, 2}, parser.NodeLEQ: {2, 2}, parser.NodeNEQ: {2, 2}, parser.NodeEQ: {2, 2}, parser.NodeGT: {2, 2}, parser.NodeLT: {2, 2},
	parser.NodePLUS: {1, 2}, parser.NodeMINUS: {1, 2}, parser.NodeTIMES: {2, 2}, parser.NodeDIV: {2, 2}, parser.NodeMODINT: {2, 2}, parser.NodeDIVINT: {2, 2},
	parser.NodeAND: {2, 2}, parser.NodeOR: {2, 2}, parser.NodeNOT: {1, 1},
	parser.NodeLIKE: {2, 2}, parser.NodeIN: {2, 2}, parser.NodeHASPREFIX: {2, 2}, parser.NodeHASSUFFIX: {2, 2}, parser.NodeNOTIN: {2, 2},
	parser.NodeLET: {1, 1}, parser.NodeGUARD: {1, 1}, parser.NodeLOOP: {2, 2}, parser.NodeMUTEX: {2, 2}, parser.NodeIMPORT: {2, 2},
	parser.NodeCOMPACCESS: {1, 1}, parser.NodeRETURN: {0, 1},
	parser.NodeKINDMATCH: {1, 1}, parser.NodeSCOPEMATCH: {1, 1}, parser.NodeSTATEMATCH: {1, 1}, parser.NodePRIORITY: {1, 1}, parser.NodeSUPPRESSES: {1, 1},
	parser.NodeOTHERWISE: {1, 1}, parser.NodeFINALLY: {1, 1}, parser.NodeAS: {1, 1},
	parser.NodeSTRING: {0, 0}, parser.NodeNUMBER: {0, 0}, parser.NodeTRUE: {0, 0}, parser.NodeFALSE: {0, 0}, parser.NodeNULL: {0, 0},
	parser.NodeBREAK: {0, 0}, parser.NodeCONTINUE: {0, 0},
}

// Shape checks a returned tree: no nil / nameless node, fixed arities and child kinds
// per node kind (written from the language reference).  "" = well-formed.
func Shape(n *parser.ASTNode, path string) string {
	if n == nil {
		return "nil: nil node at " + path
	}
	if n.Name == "" {
		return "noname: node without a kind at " + path
	}
	for i, c := range n.Children {
		if c == nil {
			return fmt.Sprintf("nil: nil child %d of %s at %s", i, n.Name, path)
		}
	}
	k := len(n.Children)
	if a, ok := arity[n.Name]; ok && (k < a[0] || k > a[1]) {
		return fmt.Sprintf("arity-%s: %s node with %d children (want %d..%d) at %s", n.Name, n.Name, k, a[0], a[1], path)
	}
	kindOf := func(i int) string { return n.Children[i].Name }
	switch n.Name {
	case parser.NodeMAP:
		for i := range n.Children {
			if kindOf(i) != parser.NodeKVP {
				return fmt.Sprintf("map-child: map literal has a %s child where a key : value pair is required at %s", kindOf(i), path)
			}
		}
	case parser.NodeIF:
		if k < 2 || k%2 != 0 {
			return fmt.Sprintf("if-children: if node with %d children (want guard/statements pairs) at %s", k, path)
		}
		for i := 0; i < k; i += 2 {
			if kindOf(i) != parser.NodeGUARD || kindOf(i+1) != parser.NodeSTATEMENTS {
				return fmt.Sprintf("if-children: if node child pair %d is (%s, %s), want (guard, statements) at %s", i/2, kindOf(i), kindOf(i+1), path)
			}
		}
	case parser.NodeLOOP:
		if (kindOf(0) != parser.NodeGUARD && kindOf(0) != parser.NodeIN) || kindOf(1) != parser.NodeSTATEMENTS {
			return fmt.Sprintf("loop-children: loop node children are (%s, %s) at %s", kindOf(0), kindOf(1), path)
		}
	case parser.NodeMUTEX:
		if kindOf(0) != parser.NodeIDENTIFIER || kindOf(1) != parser.NodeSTATEMENTS {
			return fmt.Sprintf("mutex-children: mutex node children are (%s, %s) at %s", kindOf(0), kindOf(1), path)
		}
	case parser.NodeTRY:
		if k < 1 || kindOf(0) != parser.NodeSTATEMENTS {
			return fmt.Sprintf("try-children: try node does not start with statements at %s", path)
		}
		// try { } except ... { } ... [otherwise { }] [finally { }] - in this order, the last
		// two at most once
		stage := 0
		for i := 1; i < k; i++ {
			var want int
			switch kindOf(i) {
			case parser.NodeEXCEPT:
				want = 0
			case parser.NodeOTHERWISE:
				want = 1
			case parser.NodeFINALLY:
				want = 2
			default:
				return fmt.Sprintf("try-children: try node has a %s child at %s", kindOf(i), path)
			}
			if want < stage || (want == stage && want > 0) {
				return fmt.Sprintf("try-order: try node has its %s clause out of order or repeated (child %d) at %s", kindOf(i), i, path)
			}
			stage = want
		}
	case parser.NodeEXCEPT:
		if k < 1 || kindOf(k-1) != parser.NodeSTATEMENTS {
			return fmt.Sprintf("except-children: except node does not end with statements at %s", path)
		}
		for i := 0; i < k-1; i++ {
			// error type strings, then at most one `as <identifier>` or a bare identifier
			// (`except e {`) right before the block
			if kindOf(i) != parser.NodeSTRING && !((kindOf(i) == parser.NodeAS || kindOf(i) == parser.NodeIDENTIFIER) && i == k-2) {
				return fmt.Sprintf("except-children: except node has a %s child at position %d of %d at %s", kindOf(i), i, k, path)
			}
		}
	case parser.NodeAS:
		if kindOf(0) != parser.NodeIDENTIFIER {
			return fmt.Sprintf("as-children: as node child is %s, want identifier at %s", kindOf(0), path)
		}
	case parser.NodeOTHERWISE, parser.NodeFINALLY:
		if kindOf(0) != parser.NodeSTATEMENTS {
			return fmt.Sprintf("try-children: %s node child is %s at %s", n.Name, kindOf(0), path)
		}
	case parser.NodeFUNC:
		if k < 2 || kindOf(k-1) != parser.NodeSTATEMENTS || kindOf(k-2) != parser.NodePARAMS {
			return fmt.Sprintf("function-children: function node with %d children not ending in (params, statements) at %s", k, path)
		}
	case parser.NodeSINK:
		if k < 1 || kindOf(0) != parser.NodeIDENTIFIER {
			return fmt.Sprintf("sink-children: sink node does not start with its name at %s", path)
		}
	case parser.NodeIMPORT:
		if kindOf(0) != parser.NodeSTRING || kindOf(1) != parser.NodeIDENTIFIER {
			return fmt.Sprintf("import-children: import node children are (%s, %s) at %s", kindOf(0), kindOf(1), path)
		}
	}
	for i, c := range n.Children {
		if msg := Shape(c, fmt.Sprintf("%s/%s[%d]", path, n.Name, i)); msg != "" {
			return msg
		}
	}
	return ""
}
