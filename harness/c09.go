package main

import (
	"fmt"
	"runtime"

	"github.com/krotik/ecal/engine/pool"
	"simrt"
	"simrt/simsync"
	"simrt/simtime"
)

// C09 — the thread pool runs every accepted task exactly once without outside help.

type c09Op struct {
	Kind     string `json:"kind"`            // "add" | "burst"
	N        int    `json:"n,omitempty"`     // burst size
	Fail     bool   `json:"fail,omitempty"`  // task returns an error (HandleError path)
	StallNs  int    `json:"stall,omitempty"` // task sleeps (simulated ns)
	Yields   int    `json:"yields,omitempty"`
	Children int    `json:"children,omitempty"`  // task submits further tasks
	PauseNs  int    `json:"pause,omitempty"`     // submitter sleeps before the op
	WaitNext bool   `json:"wait_next,omitempty"` // kind "pair": the first task blocks until the second (added right behind it) is done
	Exit     bool   `json:"exit,omitempty"`      // the task ends its worker goroutine (runtime.Goexit, as a debugger kill of a sink thread does)
}

type c09Resize struct {
	Count   int  `json:"count"`
	Wait    bool `json:"wait"`
	PauseNs int  `json:"pause,omitempty"`
}

type c09Plan struct {
	Workers    int         `json:"workers"`
	Submitters [][]c09Op   `json:"submitters"`
	Resizes    []c09Resize `json:"resizes,omitempty"`
	Ending     string      `json:"ending"` // passive | waitall | joinall | setworkers
	LIFO       bool        `json:"lifo,omitempty"`
	TooMany    int         `json:"too_many_threshold,omitempty"` // regulation thresholds (0 = pool default)
	TooFew     int         `json:"too_few_threshold,omitempty"`
	Pollers    int         `json:"state_pollers,omitempty"` // tasks calling State()/Status()/WorkerCount() while everything else runs
	Clear      int         `json:"clear_prelude,omitempty"` // >0: before everything else that many tasks are queued, the queue is partly consumed, cleared by its owner (Clear()), and reused
	Exits      int         `json:"exits,omitempty"`         // number of ops with Exit
	NoPair     bool        `json:"no_pair,omitempty"`
}

type lifoQueue struct{ q []pool.Task }

func (l *lifoQueue) Clear()           { l.q = nil }
func (l *lifoQueue) Push(t pool.Task) { l.q = append(l.q, t) }
func (l *lifoQueue) Size() int        { return len(l.q) }
func (l *lifoQueue) Pop() pool.Task {
	if len(l.q) == 0 {
		return nil
	}
	t := l.q[len(l.q)-1]
	l.q = l.q[:len(l.q)-1]
	return t
}

func init() {
	register(&Workload{ID: "C09", Gen: c09Gen, New: func() interface{} { return &c09Plan{} }, Run: c09Run, Shrink: c09Shrink,
		Budget: 1_500_000})
}

func c09Gen(r *simrt.RNG, tier string) interface{} {
	p := &c09Plan{}
	big := tier == "thorough"
	p.Workers = 1 + r.Intn(3)
	if r.Bool(0.15) {
		p.Workers = 1 + r.Intn(4)
		if big && r.Bool(0.3) {
			p.Workers = 1 + r.Intn(16)
		}
	}
	ns := 1 + r.Intn(3)
	maxOps := 4
	if big {
		maxOps = 8
	}
	for i := 0; i < ns; i++ {
		var ops []c09Op
		n := 1 + r.Intn(maxOps)
		for j := 0; j < n; j++ {
			op := c09Op{Kind: "add"}
			if r.Bool(0.25) {
				op.Kind = "burst"
				op.N = 2 + r.Intn(4)
				if r.Bool(0.06) {
					op.N = 200 + r.Intn(500) // a backlog of hundreds of tasks
				}
			}
			if r.Bool(0.2) {
				op.Fail = true
			}
			if r.Bool(0.2) {
				op.StallNs = 1 + r.Intn(50)
			}
			if r.Bool(0.2) {
				op.Yields = 1 + r.Intn(3)
			}
			if r.Bool(0.15) {
				op.Children = 1 + r.Intn(2)
			}
			if r.Bool(0.3) {
				op.PauseNs = 1 + r.Intn(40)
			}
			ops = append(ops, op)
		}
		p.Submitters = append(p.Submitters, ops)
	}
	if r.Bool(0.4) {
		n := 1 + r.Intn(3)
		for i := 0; i < n; i++ {
			p.Resizes = append(p.Resizes, c09Resize{Count: 1 + r.Intn(4), Wait: r.Bool(0.4), PauseNs: r.Intn(30)})
		}
	}
	switch r.Intn(6) {
	case 0, 1, 2:
		p.Ending = "passive"
	case 3:
		p.Ending = "waitall"
	case 4:
		p.Ending = "joinall"
	default:
		p.Ending = "setworkers"
	}
	p.LIFO = r.Bool(0.15)
	if r.Bool(0.3) {
		p.TooMany = []int{1, 2, 2, 3, 5, 10}[r.Intn(6)]
		p.TooFew = r.Intn(3)
	}
	if r.Bool(0.2) {
		p.Pollers = 1 + r.Intn(2)
	}
	if !p.LIFO && r.Bool(0.06) {
		p.Clear = 1 + r.Intn(5)
	}
	if len(p.Resizes) == 0 && p.Workers >= 2 && r.Bool(0.12) {
		// some tasks end the worker that runs them; at least one worker (two, if a pair of
		// dependent tasks follows) survives
		left := p.Workers - 2
		if left < 1 {
			left = 1
		}
		for si := range p.Submitters {
			for oi := range p.Submitters[si] {
				op := &p.Submitters[si][oi]
				if op.Kind == "add" && left > 0 && r.Bool(0.4) {
					op.Exit, op.Fail, op.Children = true, false, 0
					left--
					p.Exits++
				}
			}
		}
		if p.Workers-p.Exits < 2 {
			p.NoPair = true
		}
	}
	if !p.NoPair && r.Bool(0.15) {
		// one pair of back-to-back submissions where the first task waits for the second:
		// needs a second worker to be woken although the queue was not empty
		if p.Workers < 2 {
			p.Workers = 2
		}
		for i := range p.Resizes {
			if p.Resizes[i].Count < 2 {
				p.Resizes[i].Count = 2
			}
		}
		si := r.Intn(len(p.Submitters))
		p.Submitters[si] = append(p.Submitters[si], c09Op{Kind: "pair", WaitNext: true, PauseNs: r.Intn(30)})
	}
	return p
}

func c09Shrink(pi interface{}) []interface{} {
	p := pi.(*c09Plan)
	var out []interface{}
	clone := func() *c09Plan {
		q := *p
		q.Submitters = nil
		for _, s := range p.Submitters {
			q.Submitters = append(q.Submitters, append([]c09Op(nil), s...))
		}
		q.Resizes = append([]c09Resize(nil), p.Resizes...)
		return &q
	}
	if len(p.Resizes) > 0 {
		q := clone()
		q.Resizes = nil
		out = append(out, q)
		for i := range p.Resizes {
			q := clone()
			q.Resizes = append(q.Resizes[:i], q.Resizes[i+1:]...)
			out = append(out, q)
		}
	}
	for i := range p.Submitters {
		if len(p.Submitters) > 1 {
			q := clone()
			q.Submitters = append(q.Submitters[:i], q.Submitters[i+1:]...)
			out = append(out, q)
		}
		for j := range p.Submitters[i] {
			if len(p.Submitters[i]) > 1 {
				q := clone()
				q.Submitters[i] = append(q.Submitters[i][:j], q.Submitters[i][j+1:]...)
				out = append(out, q)
			}
			op := p.Submitters[i][j]
			if op != (c09Op{Kind: "add"}) {
				q := clone()
				q.Submitters[i][j] = c09Op{Kind: "add"}
				out = append(out, q)
			}
			if op.Kind == "burst" && op.N > 2 {
				q := clone()
				q.Submitters[i][j].N = op.N / 2
				out = append(out, q)
				q = clone()
				q.Submitters[i][j].N = op.N - 1
				out = append(out, q)
			}
		}
	}
	needed := 1 + p.Exits
	for _, ops := range p.Submitters {
		for _, op := range ops {
			if op.Kind == "pair" {
				needed = 2 + p.Exits
			}
		}
	}
	if p.Workers > 1 && (p.Exits == 0 || p.Workers-1 >= needed) {
		q := clone()
		q.Workers = p.Workers - 1
		out = append(out, q)
	}
	for si := range p.Submitters {
		for oi := range p.Submitters[si] {
			if p.Submitters[si][oi].Exit {
				q := clone()
				q.Submitters[si][oi].Exit = false
				q.Exits--
				out = append(out, q)
			}
		}
	}
	if p.Clear > 0 {
		q := clone()
		q.Clear = 0
		out = append(out, q)
		if p.Clear > 1 {
			q = clone()
			q.Clear = 1
			out = append(out, q)
		}
	}
	if p.LIFO {
		q := clone()
		q.LIFO = false
		out = append(out, q)
	}
	if p.TooMany != 0 || p.TooFew != 0 {
		q := clone()
		q.TooMany, q.TooFew = 0, 0
		out = append(out, q)
	}
	if p.Pollers > 0 {
		q := clone()
		q.Pollers = 0
		out = append(out, q)
	}
	if p.Ending != "passive" {
		q := clone()
		q.Ending = "passive"
		out = append(out, q)
	}
	return out
}

type c09Dep struct {
	mu   simsync.Mutex
	cond *simsync.Cond
	done bool
}

type c09State struct {
	tp       *pool.ThreadPool
	runs     []int
	done     []bool
	handled  []int
	fail     []bool
	nextID   int
	running  int
	lastSize int
	exited   int // workers ended by their task
	cleared  map[int]bool
}

type c09Task struct {
	st      *c09State
	id      int
	op      c09Op
	waitFor *c09Dep // block until this dependency is done
	signal  *c09Dep // mark this dependency done at the end
}

func (t *c09Task) Run(tid uint64) error {
	st := t.st
	st.runs[t.id]++
	if st.runs[t.id] > 1 {
		simrt.Fail("oracle:task-ran-twice", "ran-twice", "task %d was started %d times", t.id, st.runs[t.id])
	}
	st.running++
	for i := 0; i < t.op.Yields; i++ {
		simrt.Yield()
	}
	if t.op.StallNs > 0 {
		simtime.Sleep(simtime.Duration(t.op.StallNs))
	}
	for i := 0; i < t.op.Children; i++ {
		st.submit(c09Op{Kind: "add"})
	}
	if t.waitFor != nil {
		simrt.Count("fault_task_blocks_on_queued_task")
		t.waitFor.mu.Lock()
		for !t.waitFor.done {
			t.waitFor.cond.Wait()
		}
		t.waitFor.mu.Unlock()
	}
	if t.signal != nil {
		t.signal.mu.Lock()
		t.signal.done = true
		t.signal.cond.Broadcast()
		t.signal.mu.Unlock()
	}
	st.running--
	st.done[t.id] = true
	if t.op.Exit {
		simrt.Count("fault_worker_goroutine_ended_by_task")
		st.exited++
		runtime.Goexit()
	}
	if t.op.Fail {
		return fmt.Errorf("task %d failed", t.id)
	}
	return nil
}

func (t *c09Task) HandleError(e error) {
	t.st.handled[t.id]++
}

func (st *c09State) submitPair(op c09Op) {
	d := &c09Dep{}
	d.cond = simsync.NewCond(&d.mu)
	for k := 0; k < 2; k++ {
		id := st.nextID
		st.nextID++
		st.runs = append(st.runs, 0)
		st.done = append(st.done, false)
		st.handled = append(st.handled, 0)
		st.fail = append(st.fail, false)
		t := &c09Task{st: st, id: id, op: c09Op{Kind: "add"}}
		if k == 0 {
			t.waitFor = d
		} else {
			t.signal = d
		}
		st.tp.AddTask(t)
	}
}

func (st *c09State) submit(op c09Op) {
	id := st.nextID
	st.nextID++
	st.runs = append(st.runs, 0)
	st.done = append(st.done, false)
	st.handled = append(st.handled, 0)
	st.fail = append(st.fail, op.Fail)
	st.tp.AddTask(&c09Task{st: st, id: id, op: op})
}

func c09Run(pi interface{}) {
	p := pi.(*c09Plan)
	st := &c09State{cleared: map[int]bool{}}
	var ownQueue *pool.DefaultTaskQueue
	if p.LIFO {
		st.tp = pool.NewThreadPoolWithQueue(&lifoQueue{})
	} else if p.Clear > 0 {
		ownQueue = &pool.DefaultTaskQueue{}
		st.tp = pool.NewThreadPoolWithQueue(ownQueue)
	} else {
		st.tp = pool.NewThreadPool()
	}
	tp := st.tp
	tooMany, tooFew := 0, 0
	if p.TooMany != 0 || p.TooFew != 0 {
		// non-default regulation thresholds; the callbacks run inside AddTask / getTask
		if p.TooMany != 0 {
			tp.TooManyThreshold = p.TooMany
		}
		tp.TooFewThreshold = p.TooFew
		tp.TooManyCallback = func() { tooMany++; simrt.Count("regulation_too_many_callback") }
		// (the callbacks do not call back into the pool: on the pinned tree they run with pool
		// locks held and e.g. WorkerCount() from TooFewCallback can close a three-lock cycle
		// with JoinAll and AddTask - DESIGN.md 9, observations)
		tp.TooFewCallback = func() { tooFew++; simrt.Count("regulation_too_few_callback") }
	}
	if ownQueue != nil {
		// the owner of the queue empties it while it is partly consumed: tasks queued before
		// that are gone (expected), tasks added afterwards must run like any other
		gate := &c09Dep{}
		gate.cond = simsync.NewCond(&gate.mu)
		tp.SetWorkerCount(1, false)
		st.submit(c09Op{Kind: "add"})
		id := st.nextID
		st.nextID++
		st.runs, st.done, st.handled, st.fail = append(st.runs, 0), append(st.done, false), append(st.handled, 0), append(st.fail, false)
		tp.AddTask(&c09Task{st: st, id: id, op: c09Op{Kind: "add"}, waitFor: gate})
		first := st.nextID
		for k := 0; k < p.Clear; k++ {
			st.submit(c09Op{Kind: "add"})
		}
		simrt.WaitQuiescent() // the first task is done, the second one waits for the gate, the rest is queued
		ownQueue.Clear()
		simrt.Count("fault_queue_cleared_by_owner")
		for k := first; k < st.nextID; k++ {
			st.cleared[k] = true
		}
		gate.mu.Lock()
		gate.done = true
		gate.cond.Broadcast()
		gate.mu.Unlock()
	}
	tp.SetWorkerCount(p.Workers, false)
	lastCount := p.Workers

	var wg simsync.WaitGroup
	for si, ops := range p.Submitters {
		ops := ops
		wg.Add(1)
		simrt.Go(fmt.Sprintf("submitter%d", si), func() {
			defer wg.Done()
			for _, op := range ops {
				if op.PauseNs > 0 {
					simtime.Sleep(simtime.Duration(op.PauseNs))
				}
				if op.Kind == "pair" {
					st.submitPair(op)
					continue
				}
				n := 1
				if op.Kind == "burst" {
					n = op.N
				}
				for k := 0; k < n; k++ {
					st.submit(op)
				}
			}
		})
	}
	pollStop := &hbFlag{}
	var pollers simsync.WaitGroup
	for i := 0; i < p.Pollers; i++ {
		pollers.Add(1)
		simrt.Go(fmt.Sprintf("poller%d", i), func() {
			defer pollers.Done()
			for !pollStop.get() {
				// read-only calls that must return whatever else is going on
				_ = tp.State()
				_ = tp.Status()
				_ = tp.WorkerCount()
				simrt.Count("state_polls")
				simtime.Sleep(7)
			}
		})
	}
	if len(p.Resizes) > 0 {
		wg.Add(1)
		rs := p.Resizes
		simrt.Go("resizer", func() {
			defer wg.Done()
			for _, r := range rs {
				if r.PauseNs > 0 {
					simtime.Sleep(simtime.Duration(r.PauseNs))
				}
				tp.SetWorkerCount(r.Count, r.Wait)
				simrt.Count("fault_resize")
				if r.Wait {
					if r.Count < lastCount {
						// shrinking with wait=true returns after the count was reached
						if c := tp.WorkerCount(); c != r.Count {
							simrt.Fail("oracle:resize-wait", "resize-wait", "SetWorkerCount(%d, true) returned with %d workers", r.Count, c)
						}
					}
				}
				lastCount = r.Count
			}
		})
	}
	wg.Wait() // every AddTask / SetWorkerCount call has returned
	stopPollers := func() {
		pollStop.set()
		pollers.Wait()
	}

	allDone := func(when string) {
		for id := 0; id < st.nextID; id++ {
			if st.cleared[id] {
				if st.runs[id] != 0 {
					simrt.Fail("oracle:task-ran-twice", "cleared-task-ran", "task %d was removed from the queue by Clear() and ran nevertheless", id)
				}
				continue
			}
			if st.runs[id] != 1 || !st.done[id] {
				state := "never started"
				if st.runs[id] == 1 {
					state = "still running"
				}
				simrt.Fail("oracle:task-not-run", "stranded-task/"+when,
					"%s: task %d of %d %s although the pool has %d worker(s); pool state %v",
					when, id, st.nextID, state, tp.WorkerCount(), tp.State())
			}
			want := 0
			if st.fail[id] {
				want = 1
			}
			if st.handled[id] != want {
				simrt.Fail("oracle:handle-error", "handle-error", "task %d: HandleError called %d times, want %d", id, st.handled[id], want)
			}
		}
	}

	switch p.Ending {
	case "passive":
		// call nothing: every accepted task must be started without a further call
		stopPollers() // (State/Status/WorkerCount wake nobody; still: nothing at all is called from here on)
		simrt.WaitQuiescent()
		allDone("passive (no further call)")
		if c := tp.WorkerCount(); c != lastCount-st.exited {
			simrt.Fail("oracle:worker-count", "worker-count/passive",
				"worker count did not converge: %d workers at quiescence, last request %d, %d worker(s) ended by their task", c, lastCount, st.exited)
		}
	case "waitall":
		tp.WaitAll()
		stopPollers()
		allDone("WaitAll returned")
	case "joinall":
		tp.JoinAll()
		stopPollers()
		allDone("JoinAll returned")
		if c := tp.WorkerCount(); c != 0 {
			simrt.Fail("oracle:joinall-workers", "joinall-workers", "JoinAll returned with %d workers", c)
		}
	case "setworkers":
		k := 1 + simrt.Choose(3)
		for _, ops := range p.Submitters {
			for _, op := range ops {
				if op.Kind == "pair" && k < 2 {
					k = 2 // a task that waits for another one needs a second worker
				}
			}
		}
		if p.Exits > 0 {
			// a worker that ends on its own while a shrinking SetWorkerCount counts kills is
			// outside the statement (DESIGN.md 9, observations): resize after things settled
			stopPollers()
			simrt.WaitQuiescent()
		}
		tp.SetWorkerCount(k, true)
		lastCount = k
		stopPollers()
		simrt.WaitQuiescent()
		allDone("after SetWorkerCount(k, true) and quiescence")
		if c := tp.WorkerCount(); c != k {
			simrt.Fail("oracle:worker-count", "worker-count/setworkers",
				"worker count did not converge: %d workers at quiescence, last request %d", c, k)
		}
	}
	simrt.Count("ending_" + p.Ending)
}
