package main

import (
	"fmt"
	"sort"
	"strings"

	"github.com/krotik/ecal/engine"
	"github.com/krotik/ecal/util"
	"simrt"
	"simrt/simsync"
	"simrt/simtime"
)

// C11 — concurrent sink invocations are isolated; failures go to their own event.

type c11Sink struct {
	Name    string   `json:"name"`
	Kinds   []string `json:"kinds"`
	Prio    int      `json:"prio"`
	Loops   int      `json:"loops"`
	Shared  bool     `json:"shared,omitempty"`  // calls a shared global function
	Interp  bool     `json:"interp,omitempty"`  // error detail built by string interpolation (parses at run time)
	Sleep   int      `json:"sleep,omitempty"`   // sleep(micros) inside the sink (stalled party)
	Spawn   int      `json:"spawn,omitempty"`   // child events added by the sink (handled by sink sc on other workers)
	Count   bool     `json:"count,omitempty"`   // the sink increments a global counter inside a mutex block
	Mode    int      `json:"mode,omitempty"`    // how the sink fails: 0 raise(), 1 out-of-bounds assignment in the sink body (plain scope error), 2 return <value>
	Foreign int      `json:"foreign,omitempty"` // 1: the sink starts a cascade of its own with addEvent(..., scope) - scope {} ; 2: scope {"": true}. Its sink fails; nothing of it belongs to this event
}

type c11Event struct {
	ID      int             `json:"id"`
	Kind    string          `json:"kind"`
	Fail    map[string]bool `json:"fail"`
	FailC   bool            `json:"failc,omitempty"`  // the child-event sink fails for this event's children
	FailGo  bool            `json:"failgo,omitempty"` // the Go rule fails for this event
	Wait    bool            `json:"wait"`
	ViaECAL bool            `json:"via_ecal,omitempty"`
	PauseNs int             `json:"pause,omitempty"`
}

type c11Plan struct {
	Globals  bool         `json:"globals,omitempty"`  // the program has globals named like the sinks' locals (event, id, acc)
	Observer bool         `json:"observer,omitempty"` // a root monitor error observer is registered
	GoRule   bool         `json:"go_rule,omitempty"`  // the embedding program registers a rule of its own (Go action, runs after all sinks) that fails with a plain Go error for some events
	Nest     bool         `json:"nest,omitempty"`     // the shared counter function takes its mutex re-entrantly
	Workers  int          `json:"workers"`
	Sinks    []c11Sink    `json:"sinks"`
	Clients  [][]c11Event `json:"clients"`
}

func init() {
	register(&Workload{ID: "C11", Gen: c11Gen, New: func() interface{} { return &c11Plan{} },
		Run: func(p interface{}) { c11Run(p.(*c11Plan)) }, Shrink: c11Shrink, Budget: 6_000_000})
}

func c11Gen(r *simrt.RNG, tier string) interface{} {
	p := &c11Plan{Workers: 2 + r.Intn(3)}
	if r.Bool(0.2) {
		p.Workers = 2 + r.Intn(7)
	}
	if tier == "thorough" && r.Bool(0.15) {
		p.Workers = 2 + r.Intn(15)
	}
	ns := 1 + r.Intn(3)
	for i := 0; i < ns; i++ {
		s := c11Sink{Name: fmt.Sprintf("s%d", i), Prio: i, Loops: r.Intn(3), Shared: r.Bool(0.5), Interp: r.Bool(0.5)}
		switch r.Intn(3) {
		case 0:
			s.Kinds = []string{"c11.a"}
		case 1:
			s.Kinds = []string{"c11.*"}
		default:
			s.Kinds = []string{"c11.a", "c11.b"}
		}
		if r.Bool(0.15) {
			s.Sleep = 1 + r.Intn(20)
		}
		if r.Bool(0.3) {
			s.Spawn = 1 + r.Intn(3)
		}
		s.Count = r.Bool(0.4)
		if r.Bool(0.3) {
			s.Mode = 1 + r.Intn(2)
		}
		if r.Bool(0.2) {
			s.Foreign = 1 + r.Intn(2)
		}
		p.Sinks = append(p.Sinks, s)
	}
	family := r.Bool(0.08)
	if family {
		// several sinks behind one wildcard leaf plus sinks on the exact kinds; events of
		// both kinds are matched by different workers at the same moment
		p.Sinks = nil
		p.Workers = 2 + r.Intn(3)
		for i := 0; i < 5; i++ {
			s := c11Sink{Name: fmt.Sprintf("s%d", i), Prio: i, Kinds: []string{"c11.*"}}
			if i == 3 {
				s.Kinds = []string{"c11.a"}
			} else if i == 4 {
				s.Kinds = []string{"c11.b"}
			}
			p.Sinks = append(p.Sinks, s)
		}
	}
	p.Globals = r.Bool(0.3)
	p.Observer = r.Bool(0.3)
	p.GoRule = r.Bool(0.25)
	p.Nest = r.Bool(0.4)
	nc := 2 + r.Intn(3)
	id := 1
	for c := 0; c < nc; c++ {
		var evs []c11Event
		n := 1 + r.Intn(4)
		if tier == "thorough" {
			n = 2 + r.Intn(8)
		}
		for i := 0; i < n; i++ {
			e := c11Event{ID: id, Kind: []string{"c11.a", "c11.a", "c11.b"}[r.Intn(3)], Fail: map[string]bool{}, Wait: r.Bool(0.75), ViaECAL: r.Bool(0.3), PauseNs: r.Intn(15)}
			id++
			for _, s := range p.Sinks {
				e.Fail[s.Name] = r.Bool(0.4)
			}
			e.FailC = r.Bool(0.4)
			e.FailGo = r.Bool(0.5)
			if family {
				e.Kind = []string{"c11.a", "c11.b"}[r.Intn(2)]
				e.Wait = r.Bool(0.2)
				e.PauseNs = 0
				for _, s := range p.Sinks {
					e.Fail[s.Name] = r.Bool(0.08)
				}
			}
			evs = append(evs, e)
		}
		p.Clients = append(p.Clients, evs)
	}
	return p
}

func c11Shrink(pi interface{}) []interface{} {
	p := pi.(*c11Plan)
	var out []interface{}
	clone := func() *c11Plan {
		q := *p
		q.Sinks = append([]c11Sink(nil), p.Sinks...)
		q.Clients = nil
		for _, c := range p.Clients {
			q.Clients = append(q.Clients, append([]c11Event(nil), c...))
		}
		return &q
	}
	for i := range p.Clients {
		if len(p.Clients) > 1 {
			q := clone()
			q.Clients = append(q.Clients[:i], q.Clients[i+1:]...)
			out = append(out, q)
		}
		for j := range p.Clients[i] {
			if len(p.Clients[i]) > 1 {
				q := clone()
				q.Clients[i] = append(q.Clients[i][:j], q.Clients[i][j+1:]...)
				out = append(out, q)
			}
			if p.Clients[i][j].ViaECAL {
				q := clone()
				q.Clients[i][j].ViaECAL = false
				out = append(out, q)
			}
		}
	}
	for i := range p.Sinks {
		if len(p.Sinks) > 1 {
			q := clone()
			q.Sinks = append(q.Sinks[:i], q.Sinks[i+1:]...)
			out = append(out, q)
		}
		s := p.Sinks[i]
		if s.Loops > 0 || s.Shared || s.Interp || s.Sleep > 0 {
			q := clone()
			q.Sinks[i].Loops, q.Sinks[i].Shared, q.Sinks[i].Interp, q.Sinks[i].Sleep = 0, false, false, 0
			out = append(out, q)
		}
		if s.Spawn > 0 {
			q := clone()
			q.Sinks[i].Spawn--
			out = append(out, q)
		}
		if s.Mode > 0 {
			q := clone()
			q.Sinks[i].Mode = 0
			out = append(out, q)
		}
		if s.Foreign > 0 {
			q := clone()
			q.Sinks[i].Foreign = 0
			out = append(out, q)
		}
	}
	if p.Workers > 2 {
		q := clone()
		q.Workers = 2
		out = append(out, q)
	}
	if p.Globals {
		q := clone()
		q.Globals = false
		out = append(out, q)
	}
	if p.Observer {
		q := clone()
		q.Observer = false
		out = append(out, q)
	}
	if p.Nest {
		q := clone()
		q.Nest = false
		out = append(out, q)
	}
	return out
}

func c11Program(p *c11Plan) string {
	var b strings.Builder
	if p.Globals {
		// names the sinks use for their own `event` value and `let` locals
		b.WriteString("event := {\"state\": {\"id\": -1}, \"name\": \"global\"}\nid := -2\nacc := -3\ny := -4\narr := [-5, -5]\n")
	}
	if p.Nest {
		b.WriteString("gcount := 0\nfunc bump() {\n    mutex cm {\n        bump2()\n    }\n}\nfunc bump2() {\n    mutex cm {\n        gcount := gcount + 1\n    }\n}\n")
	} else {
		b.WriteString("gcount := 0\nfunc bump() {\n    mutex cm {\n        gcount := gcount + 1\n    }\n}\n")
	}
	b.WriteString("func shared(x) {\n    let y := x\n    return y\n}\n")
	for _, s := range p.Sinks {
		var ks []string
		for _, k := range s.Kinds {
			ks = append(ks, fmt.Sprintf("%q", k))
		}
		fmt.Fprintf(&b, "sink %s\n    kindmatch [%s],\n    priority %d\n{\n", s.Name, strings.Join(ks, ", "), s.Prio)
		// arr: a local list built from a constant literal and then written in place
		b.WriteString("    let id := event.state.id\n    let acc := id\n    let arr := [0, 0]\n    arr[0] := id\n")
		b.WriteString("    let cnt := 0\n    let lk := \"v{{id}}w\" like \"^v{{id}}w$\"\n")
		if s.Loops > 0 {
			fmt.Fprintf(&b, "    for i in range(1, %d) {\n        cnt := cnt + 1\n", s.Loops+1) // (not range(1, 1): DESIGN.md 9, observations)
			if s.Shared {
				b.WriteString("        acc := shared(acc)\n")
			} else {
				b.WriteString("        acc := acc + 0\n")
			}
			b.WriteString("    }\n")
		} else if s.Shared {
			b.WriteString("    acc := shared(acc)\n")
		}
		for k := 0; k < s.Spawn; k++ {
			fmt.Fprintf(&b, "    addEvent(\"c{{id}}x%sx%d\", \"c11x.c\", {\"id\": id, \"failc\": event.state.failc})\n", s.Name, k)
		}
		if s.Foreign > 0 {
			// an explicit scope argument makes this a root event of a new cascade
			fmt.Fprintf(&b, "    addEvent(\"f{{id}}x%s\", \"c11x.f\", {\"id\": id + 1000}, %s)\n", s.Name, []string{"{}", "{\"\": true}"}[s.Foreign-1])
		}
		if s.Sleep > 0 {
			fmt.Fprintf(&b, "    sleep(%d)\n", s.Sleep)
		}
		if s.Count {
			b.WriteString("    bump()\n")
		}
		fmt.Fprintf(&b, "    probe(%q, id, acc, event.state.id, event.name, arr[0], cnt, lk)\n", s.Name)
		fmt.Fprintf(&b, "    if event.state.fail%s {\n", s.Name)
		if s.Mode == 1 {
			// a plain error of the variable scope, raised by a statement of the sink body itself
			b.WriteString("        arr[id + 100] := 1\n")
		} else if s.Mode == 2 {
			b.WriteString("        return [id, acc]\n")
		} else if s.Interp {
			fmt.Fprintf(&b, "        raise(\"T-%s\", \"d{{id}}\", [id, acc])\n", s.Name)
		} else {
			fmt.Fprintf(&b, "        raise(\"T-%s\", id, [id, acc])\n", s.Name)
		}
		b.WriteString("    }\n}\n")
	}
	b.WriteString("sink sf\n    kindmatch [\"c11x.f\"],\n    priority 0\n{\n    raise(\"T-sf\", event.state.id, [event.state.id])\n}\n")
	b.WriteString("sink sc\n    kindmatch [\"c11x.c\"],\n    priority 0\n{\n    let id := event.state.id\n    let acc := shared(id)\n    probe(\"sc\", id, acc, event.state.id, event.name, id, 0, true)\n    if event.state.failc {\n        raise(\"T-sc\", id, [id, acc])\n    }\n}\n")
	return b.String()
}

type c11Probe struct {
	sink             string
	id, acc, idAgain float64
	name             string
	arr0             float64
	cnt              float64 // iterations of the sink's loop
}

func c11Run(p *c11Plan) {
	erp, _ := newProvider(p.Workers, nil)
	vs := newGlobalScope()
	probes := map[int][]c11Probe{}
	vs.SetValue("probe", &goFunc{name: "probe", f: func(tid uint64, args []interface{}) (interface{}, error) {
		if len(args) != 8 {
			simrt.Fail("oracle:probe", "probe-args", "probe called with %d args", len(args))
		}
		id, _ := num(args[1])
		acc, _ := num(args[2])
		id2, _ := num(args[3])
		arr0, _ := num(args[5])
		cnt, _ := num(args[6])
		if lk, _ := args[7].(bool); !lk {
			simrt.Fail("oracle:isolation", "isolation/like", "sink %v invoked for event %v: a string built from its event id does not match (like) a pattern built from the same id", args[0], args[1])
		}
		probes[int(id)] = append(probes[int(id)], c11Probe{fmt.Sprint(args[0]), id, acc, id2, fmt.Sprint(args[4]), arr0, cnt})
		return nil, nil
	}})
	src := c11Program(p)
	if _, err := loadProgram(erp, "c11", src, vs); err != nil {
		simrt.Fail("oracle:setup", "setup", "program does not load: %v\n%s", err, src)
	}
	if p.GoRule {
		err := erp.Processor.AddRule(&engine.Rule{Name: "goaudit", Desc: "rule of the embedding program", KindMatch: []string{"c11.*"}, ScopeMatch: []string{}, Priority: 1000,
			Action: func(pr engine.Processor, m engine.Monitor, e *engine.Event, tid uint64) error {
				if f, _ := e.State()["failgo"].(bool); f {
					return fmt.Errorf("audit failed for %v", e.State()["id"])
				}
				return nil
			}})
		if err != nil {
			simrt.Fail("oracle:setup", "setup", "AddRule: %v", err)
		}
	}
	// the processor's error observer: called once per failing event with the root monitor
	// of that event's cascade
	notified := map[int]int{}
	if p.Observer {
		erp.Processor.SetRootMonitorErrorObserver(func(rm *engine.RootMonitor) {
			errs := rm.AllErrors()
			if len(errs) == 0 {
				simrt.Fail("oracle:error-attribution", "observer-foreign", "the root monitor error observer was called with a root monitor that holds no error")
			}
			ids := map[int]bool{}
			for _, te := range errs {
				id, _ := num(te.Event.State()["id"])
				ids[int(id)] = true
			}
			if len(ids) != 1 {
				simrt.Fail("oracle:error-attribution", "error-foreign-event", "a root monitor holds errors of events with different ids: %v", ids)
			}
			for id := range ids {
				notified[id]++
			}
		})
	}
	erp.Processor.Start()

	// reports[event id] = sink -> (type, detail, data) as reported
	type rep struct {
		typ, detail, data string
		text              string // full error text (only looked at for the Go rule)
	}
	reports := map[int]map[string]rep{}
	reported := map[int]bool{}
	record := func(evID int, forID int, evName string, sink string, r rep, how string) {
		if evName != fmt.Sprintf("ev%d", evID) {
			sink = evName + "/" + sink // an entry of a child event of the cascade
		}
		if forID != evID {
			simrt.Fail("oracle:error-attribution", "error-foreign-event", "%s: error report of event %d contains an entry for event %d (sink %s)", how, evID, forID, sink)
		}
		if reports[evID] == nil {
			reports[evID] = map[string]rep{}
		}
		if sink == "goaudit" {
			// a plain Go error: no type / detail / data; what matters is that the entry is there
			// and carries the text the action returned
			if !strings.Contains(r.typ+r.detail+r.data+r.text, fmt.Sprintf("audit failed for %v", float64(evID))) {
				simrt.Fail("oracle:error-report", "error-report/wrong", "%s: the entry for the Go rule of event %d does not carry its error text: %+v", how, evID, r)
			}
			r = rep{typ: "GO", detail: "GO", data: "GO"}
		}
		r.text = ""
		if _, dup := reports[evID][sink]; dup {
			simrt.Fail("oracle:error-attribution", "error-duplicated", "%s: error of sink %s reported twice for event %d", how, sink, evID)
		}
		reports[evID][sink] = r
	}
	stateOf := func(e *c11Event) map[interface{}]interface{} {
		st := map[interface{}]interface{}{"id": float64(e.ID)}
		for _, s := range p.Sinks {
			st["fail"+s.Name] = e.Fail[s.Name]
		}
		st["failc"] = e.FailC
		st["failgo"] = e.FailGo
		return st
	}
	var wg simsync.WaitGroup
	for ci, evs := range p.Clients {
		evs := evs
		wg.Add(1)
		simrt.Go(fmt.Sprintf("client%d", ci), func() {
			defer wg.Done()
			for i := range evs {
				e := &evs[i]
				if e.PauseNs > 0 {
					simtime.Sleep(simtime.Duration(e.PauseNs))
				}
				name := fmt.Sprintf("ev%d", e.ID)
				switch {
				case e.Wait && e.ViaECAL:
					var fl []string
					for _, s := range p.Sinks {
						fl = append(fl, fmt.Sprintf("\"fail%s\": %v", s.Name, e.Fail[s.Name]))
					}
					fl = append(fl, fmt.Sprintf("\"failc\": %v", e.FailC))
					fl = append(fl, fmt.Sprintf("\"failgo\": %v", e.FailGo))
					code := fmt.Sprintf("addEventAndWait(%q, %q, {\"id\": %d, %s})", name, e.Kind, e.ID, strings.Join(fl, ", "))
					res, err := loadProgram(erp, "client", code, vs.NewChild(fmt.Sprintf("client%d-%d", ci, i)))
					if err != nil {
						simrt.Fail("oracle:client", "client-eval", "addEventAndWait via ECAL failed: %v", err)
					}
					reported[e.ID] = true
					if res != nil {
						for _, it := range res.([]interface{}) {
							item := it.(map[interface{}]interface{})
							ev := item["event"].(map[interface{}]interface{})
							forID, _ := num(ev["state"].(map[interface{}]interface{})["id"])
							for sk, ei := range item["errors"].(map[interface{}]interface{}) {
								em := ei.(map[interface{}]interface{})
								record(e.ID, int(forID), fmt.Sprint(ev["name"]), fmt.Sprint(sk), rep{fmt.Sprint(em["type"]), fmt.Sprint(em["detail"]), fmt.Sprint(em["data"]), fmt.Sprint(em["error"])}, "ECAL addEventAndWait")
							}
						}
					}
				case e.Wait:
					rm := erp.Processor.NewRootMonitor(nil, nil)
					m, err := erp.Processor.AddEventAndWait(engine.NewEvent(name, strings.Split(e.Kind, "."), stateOf(e)), rm)
					if err != nil {
						simrt.Fail("oracle:client", "client-add", "AddEventAndWait: %v", err)
					}
					reported[e.ID] = true
					if m != nil {
						for _, te := range rm.AllErrors() {
							forID, _ := num(te.Event.State()["id"])
							for sk, er := range te.ErrorMap {
								r := rep{"?", er.Error(), "", er.Error()}
								if d, ok := er.(*util.RuntimeErrorWithDetail); ok {
									r = rep{d.Type.Error(), d.Detail, fmt.Sprint(d.Data), er.Error()}
								}
								record(e.ID, int(forID), te.Event.Name(), sk, r, "AddEventAndWait")
							}
						}
					}
				default:
					rm := erp.Processor.NewRootMonitor(nil, nil)
					ev := e
					rm.SetFinishHandler(func(engine.Processor) {
						reported[ev.ID] = true
						for _, te := range rm.AllErrors() {
							forID, _ := num(te.Event.State()["id"])
							for sk, er := range te.ErrorMap {
								r := rep{"?", er.Error(), "", er.Error()}
								if d, ok := er.(*util.RuntimeErrorWithDetail); ok {
									r = rep{d.Type.Error(), d.Detail, fmt.Sprint(d.Data), er.Error()}
								}
								record(ev.ID, int(forID), te.Event.Name(), sk, r, "finish handler")
							}
						}
					})
					if _, err := erp.Processor.AddEvent(engine.NewEvent(name, strings.Split(e.Kind, "."), stateOf(e)), rm); err != nil {
						simrt.Fail("oracle:client", "client-add", "AddEvent: %v", err)
					}
				}
			}
		})
	}
	wg.Wait()
	simrt.WaitQuiescent()

	// per event: expected executed prefix (fail-on-first-error is on for ECAL sinks)
	for _, evs := range p.Clients {
		for i := range evs {
			e := &evs[i]
			var trig []c11Sink
			for _, s := range p.Sinks {
				for _, k := range s.Kinds {
					if refKindMatch(k, e.Kind) {
						trig = append(trig, s)
						break
					}
				}
			}
			sort.Slice(trig, func(a, b int) bool { return trig[a].Prio < trig[b].Prio })
			var run []c11Sink
			failing := ""
			for _, s := range trig {
				run = append(run, s)
				if e.Fail[s.Name] {
					failing = s.Name
					break
				}
			}
			var got, gotChildren []c11Probe
			for _, pr := range probes[e.ID] {
				if pr.sink == "sc" {
					gotChildren = append(gotChildren, pr)
				} else {
					got = append(got, pr)
				}
			}
			wantChildren := map[string]bool{}
			for _, s := range run {
				for k := 0; k < s.Spawn; k++ {
					wantChildren[fmt.Sprintf("c%vx%sx%d", float64(e.ID), s.Name, k)] = true
				}
			}
			seenChild := map[string]bool{}
			for _, pr := range gotChildren {
				if !wantChildren[pr.name] || seenChild[pr.name] {
					simrt.Fail("oracle:invocations", "child-invocation", "event %d: unexpected or repeated invocation of the child sink for child event %q", e.ID, pr.name)
				}
				seenChild[pr.name] = true
				if pr.id != float64(e.ID) || pr.acc != float64(e.ID) || pr.idAgain != float64(e.ID) {
					simrt.Fail("oracle:isolation", "isolation", "child sink invoked for %q (event %d) saw event id %v, local %v, event id (again) %v", pr.name, e.ID, pr.id, pr.acc, pr.idAgain)
				}
			}
			if len(seenChild) != len(wantChildren) {
				simrt.Fail("oracle:invocations", "child-invocation-count", "event %d: %d child sink invocation(s) observed, want %d", e.ID, len(seenChild), len(wantChildren))
			}
			if len(got) != len(run) {
				simrt.Fail("oracle:invocations", "invocation-count", "event %d (kind %s): %d sink invocation(s) observed, want %d (%v)", e.ID, e.Kind, len(got), len(run), got)
			}
			for k, pr := range got {
				if pr.sink != run[k].Name {
					simrt.Fail("oracle:invocations", "invocation-order", "event %d: invocation %d was sink %s, want %s", e.ID, k, pr.sink, run[k].Name)
				}
				if wantIt := run[k].Loops + 1; run[k].Loops > 0 && pr.cnt != float64(wantIt) {
					simrt.Fail("oracle:isolation", "loop-iterations", "sink %s invoked for event %d ran the body of `for i in range(1, %d)` %v times", pr.sink, e.ID, wantIt, pr.cnt)
				}
				if pr.id != float64(e.ID) || pr.acc != float64(e.ID) || pr.idAgain != float64(e.ID) || pr.name != fmt.Sprintf("ev%d", e.ID) || pr.arr0 != float64(e.ID) {
					simrt.Fail("oracle:isolation", "isolation", "sink %s invoked for event %d saw event id %v, local %v, event id (again) %v, event name %q, first item of its local list %v",
						pr.sink, e.ID, pr.id, pr.acc, pr.idAgain, pr.name, pr.arr0)
				}
			}
			if (len(trig) > 0 || p.GoRule) && !reported[e.ID] {
				simrt.Fail("oracle:error-report", "no-report", "event %d: cascade never reported completion", e.ID)
			}
			want := map[string]rep{}
			if failing != "" {
				detail := fmt.Sprint(float64(e.ID))
				mode := 0
				for _, s := range p.Sinks {
					if s.Name == failing && s.Interp {
						detail = "d" + fmt.Sprint(float64(e.ID))
					}
					if s.Name == failing {
						mode = s.Mode
					}
				}
				want[failing] = rep{typ: "T-" + failing, detail: detail, data: fmt.Sprint([]interface{}{float64(e.ID), float64(e.ID)})}
				if g, ok := reports[e.ID][failing]; ok && mode != 0 {
					// type and wording of these failures are the interpreter's; what the invocation
					// itself contributes is the index (mode 1) / the returned value (mode 2)
					w := want[failing]
					w.typ = g.typ
					if mode == 1 {
						own := fmt.Sprint(100 + e.ID)
						w.data = fmt.Sprint(nil)
						if strings.Contains(g.detail, own) {
							w.detail = g.detail
						} else {
							w.detail = "<a message naming index " + own + ">"
						}
					} else {
						w.detail = g.detail
					}
					want[failing] = w
				}
			}
			if p.GoRule && failing == "" && e.FailGo {
				want["goaudit"] = rep{typ: "GO", detail: "GO", data: "GO"}
			}
			if e.FailC {
				for name := range wantChildren {
					want[name+"/sc"] = rep{typ: "T-sc", detail: fmt.Sprint(float64(e.ID)), data: fmt.Sprint([]interface{}{float64(e.ID), float64(e.ID)})}
				}
			}
			gotR := reports[e.ID]
			var diff []string
			for s, w := range want {
				g, ok := gotR[s]
				if !ok {
					diff = append(diff, fmt.Sprintf("error of sink %s lost (want type %s detail %q data %s)", s, w.typ, w.detail, w.data))
				} else if g != w {
					diff = append(diff, fmt.Sprintf("sink %s reported (type %s detail %q data %s), its code produced (type %s detail %q data %s)", s, g.typ, g.detail, g.data, w.typ, w.detail, w.data))
				}
			}
			for s, g := range gotR {
				if _, ok := want[s]; !ok {
					diff = append(diff, fmt.Sprintf("sink %s reported an error (type %s detail %q) although its invocation for this event did not fail", s, g.typ, g.detail))
				}
			}
			// (the pinned tree notifies once per failing event; once per cascade would serve the
			// documented purpose as well, so only the bounds are asserted)
			if p.Observer && (notified[e.ID] > len(want) || (len(want) > 0 && notified[e.ID] == 0)) {
				diff = append(diff, fmt.Sprintf("the error observer was called %d time(s) with the root monitor of this event, %d of its events failed", notified[e.ID], len(want)))
			}
			if len(diff) > 0 {
				sort.Strings(diff)
				sig := "error-report/wrong"
				if strings.Contains(diff[0], "lost") {
					sig = "error-report/lost"
				} else if strings.Contains(diff[0], "although") {
					sig = "error-report/spurious"
				}
				simrt.Fail("oracle:error-report", sig, "event %d (kind %s): %s", e.ID, e.Kind, strings.Join(diff, "; "))
			}
		}
	}
	wantCount := 0
	for _, evs := range p.Clients {
		for i := range evs {
			for _, pr := range probes[evs[i].ID] {
				for _, s := range p.Sinks {
					if s.Name == pr.sink && s.Count {
						wantCount++
					}
				}
			}
		}
	}
	if v, _, _ := vs.GetValue("gcount"); fmt.Sprint(v) != fmt.Sprint(float64(wantCount)) {
		simrt.Fail("oracle:isolation", "global-counter", "global counter incremented inside a mutex block by %d sink invocations is %v", wantCount, v)
	}
	simrt.Count("c11_runs_checked")
	erp.Processor.Finish()
}
