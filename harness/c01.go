package main

import (
	"fmt"
	"regexp"
	"sort"
	"strings"

	"github.com/krotik/ecal/engine"
	"github.com/krotik/ecal/interpreter"
	"simrt"
	"simrt/simsync"
	"simrt/simtime"
)

// C01 — exactly the matching, in-scope, unsuppressed rules fire once per event.
//
// The simulator contributes the history / worker-count / concurrent-adder
// dimension; the rule x event space is sampled by the generator (DESIGN.md 4).

type c01Val struct {
	T string  `json:"t"` // null | num | str | regex | list | map
	S string  `json:"s,omitempty"`
	N float64 `json:"n,omitempty"`
}

type c01Rule struct {
	Name     string            `json:"name"`
	Kinds    []string          `json:"kinds"`
	State    map[string]c01Val `json:"state,omitempty"`
	HasState bool              `json:"has_state,omitempty"`
	Scope    []string          `json:"scope"`
	Prio     int               `json:"prio,omitempty"`
	Suppress []string          `json:"suppress,omitempty"`
}

type c01Event struct {
	Name     string            `json:"name"`
	Kind     string            `json:"kind"`
	Segs     []string          `json:"segs,omitempty"` // explicit kind segments (a segment may contain a dot); overrides Kind
	State    map[string]c01Val `json:"state,omitempty"`
	Wait     bool              `json:"wait,omitempty"`
	Scope    int               `json:"scope"`
	DefScope bool              `json:"def_scope,omitempty"` // root monitor created without a scope (the processor's default: global scope) ...
	Edit     map[string]bool   `json:"edit,omitempty"`      // ... whose Scope() is then narrowed / widened by its owner before the event is added
	Children []c01Event        `json:"children,omitempty"`
	eff      map[string]bool   // reuse mode: the definitions of the shared scope object at the time the event was added
	PauseNs  int               `json:"pause,omitempty"`
	NoState  bool              `json:"no_state,omitempty"` // the event carries no state at all (Go API only; identified by its object)
}

type c01Reload struct {
	Rules   []c01Rule    `json:"rules"`
	Clients [][]c01Event `json:"clients"`
}

type c01Plan struct {
	ReuseScopes bool              `json:"reuse_scope_objects,omitempty"` // every client keeps one RuleScope object per scope and uses it for all its cascades, editing it in between (all its events wait)
	RaceReset   bool              `json:"race_reset,omitempty"`          // reload: another goroutine keeps calling Reset() while Finish() is still working through queued events
	Flood       int               `json:"kind_flood,omitempty"`          // that many events of pairwise distinct, non-matching kinds are added before the clients start
	Reload      *c01Reload        `json:"reload,omitempty"`              // Finish(), Reset(), load this rule set, Start(), second batch of events
	ViaECAL     bool              `json:"via_ecal,omitempty"`            // rules are declared as ECAL sinks (attribute -> rule conversion in the interpreter)
	Workers     int               `json:"workers"`
	Rules       []c01Rule         `json:"rules"`
	Scopes      []map[string]bool `json:"scopes"`
	Clients     [][]c01Event      `json:"clients"`
}

func init() {
	register(&Workload{ID: "C01", Gen: c01Gen, New: func() interface{} { return &c01Plan{} },
		Run: func(p interface{}) { c01Run(p.(*c01Plan)) }, Shrink: c01Shrink, Budget: 3_000_000})
}

var c01Segs = []string{"a", "b", "c"}
var c01Keys = []string{"k1", "k2", "k3"}
var c01Names = []string{"e0", "e1", "e2"}
var c01ScopePaths = []string{"", "s", "s.t", "s.t.u", "v"}

// paths with an empty segment: a segment is whatever stands between two dots
var c01OddScopePaths = []string{"s.", ".s", "s..t", "s.t."}

func c01GenScopePath(r *simrt.RNG) string {
	if r.Bool(0.06) {
		return c01OddScopePaths[r.Intn(len(c01OddScopePaths))]
	}
	return c01ScopePaths[r.Intn(len(c01ScopePaths))]
}

// scopeMap is the scope definition of the cascade the event belongs to.
func (e *c01Event) scopeMap(p *c01Plan) map[string]bool {
	if e.eff != nil {
		return e.eff
	}
	if !e.DefScope {
		return p.Scopes[e.Scope]
	}
	m := map[string]bool{"": true}
	for k, v := range e.Edit {
		m[k] = v
	}
	return m
}

func c01GenKind(r *simrt.RNG, pattern bool) string {
	n := 1 + r.Intn(3)
	var segs []string
	for i := 0; i < n; i++ {
		if pattern && r.Bool(0.3) {
			segs = append(segs, "*")
		} else {
			segs = append(segs, c01Segs[r.Intn(len(c01Segs))])
		}
	}
	return strings.Join(segs, ".")
}

func c01GenVal(r *simrt.RNG, forRule bool, containers bool) c01Val {
	x := r.Intn(100)
	switch {
	case x < 20:
		return c01Val{T: "null"}
	case x < 45:
		return c01Val{T: "num", N: float64(1 + r.Intn(3))}
	case x < 75:
		return c01Val{T: "str", S: []string{"a", "b", "ab", "1"}[r.Intn(4)]}
	case x < 90 && forRule:
		return c01Val{T: "regex", S: []string{"^a", "b$", "^[0-9]+$", "a|1", ".+", "^$", "nil"}[r.Intn(7)]}
	case x < 95 && containers:
		// [n] or ["n"]: different values that read alike
		return c01Val{T: "list", N: float64(1 + r.Intn(2)), S: []string{"", "", "str"}[r.Intn(3)]}
	case containers:
		// {"x": 1}, {"1": 1} or {1: 1}
		return c01Val{T: "map", S: []string{"x", "x", "1", "#1"}[r.Intn(4)]}
	}
	return c01Val{T: "str", S: "ab"}
}

func c01GenEvent(r *simrt.RNG, p *c01Plan, depth int, containers bool) c01Event {
	e := c01Event{Name: c01Names[r.Intn(len(c01Names))], Kind: c01GenKind(r, false), Wait: r.Bool(0.5), Scope: r.Intn(len(p.Scopes)), PauseNs: r.Intn(10)}
	if r.Bool(0.08) {
		e.NoState = true
	} else if r.Bool(0.7) {
		e.State = map[string]c01Val{}
		n := 1 + r.Intn(3)
		for i := 0; i < n; i++ {
			e.State[c01Keys[r.Intn(len(c01Keys))]] = c01GenVal(r, false, containers)
		}
	}
	if depth < 2 && r.Bool(0.25) {
		n := 1 + r.Intn(2)
		for i := 0; i < n; i++ {
			e.Children = append(e.Children, c01GenEvent(r, p, depth+1, containers))
		}
	}
	if r.Bool(0.06) {
		// a kind whose segmentation differs from its dotted spelling (Go API only):
		// ["a.b"] is one segment and must not be confused with ["a", "b"]
		ks := strings.Split(e.Kind, ".")
		if len(ks) >= 2 {
			i := r.Intn(len(ks) - 1)
			merged := append(append([]string{}, ks[:i]...), ks[i]+"."+ks[i+1])
			e.Segs = append(merged, ks[i+2:]...)
		}
	}
	return e
}

func c01Gen(r *simrt.RNG, tier string) interface{} {
	p := &c01Plan{Workers: 1 + r.Intn(4)}
	family := false
	containers := r.Bool(0.25)
	nr := 1 + r.Intn(12)
	many := r.Bool(0.04)
	manyKind := c01GenKind(r, false)
	if many {
		nr = 60 + r.Intn(11)
	}
	for i := 0; i < nr; i++ {
		ru := c01Rule{Name: fmt.Sprintf("r%d", i), Prio: r.Intn(3), Scope: []string{}}
		nk := 1
		if r.Bool(0.35) {
			nk = 2 + r.Intn(2)
		}
		for k := 0; k < nk; k++ {
			ru.Kinds = append(ru.Kinds, c01GenKind(r, true))
		}
		if many {
			ru.Kinds = []string{manyKind}
		}
		if r.Bool(0.55) || many {
			ru.HasState = true
			ru.State = map[string]c01Val{}
			n := r.Intn(4)
			if many && n == 0 {
				n = 1
			}
			for k := 0; k < n; k++ {
				ru.State[c01Keys[r.Intn(len(c01Keys))]] = c01GenVal(r, true, containers)
			}
		}
		if r.Bool(0.3) {
			n := 1 + r.Intn(2)
			for k := 0; k < n; k++ {
				ru.Scope = append(ru.Scope, c01GenScopePath(r))
			}
		}
		p.Rules = append(p.Rules, ru)
	}
	if !many && r.Bool(0.12) {
		// family: several stateless rules behind one wildcard leaf plus rules on the exact
		// kinds, events of those kinds added concurrently without waiting (workers >= 2)
		p.Rules = nil
		p.Workers = 2 + r.Intn(3)
		k := []int{3, 5, 6, 7, 9}[r.Intn(5)]
		for i := 0; i < k; i++ {
			p.Rules = append(p.Rules, c01Rule{Name: fmt.Sprintf("w%d", i), Kinds: []string{"a.*"}, Scope: []string{}, Prio: r.Intn(3)})
		}
		for i, kd := range []string{"a.a", "a.b", "a.c", "*.b", "*.*"} {
			if r.Bool(0.7) {
				p.Rules = append(p.Rules, c01Rule{Name: fmt.Sprintf("x%d", i), Kinds: []string{kd}, Scope: []string{}, Prio: r.Intn(3)})
			}
		}
		family = true
	}
	for i := range p.Rules {
		if r.Bool(0.15) && len(p.Rules) > 1 {
			j := r.Intn(len(p.Rules))
			if j != i {
				p.Rules[i].Suppress = append(p.Rules[i].Suppress, p.Rules[j].Name)
			}
		}
	}
	if !many && r.Bool(0.35) {
		p.ViaECAL = true
		for i := range p.Rules {
			for k, v := range p.Rules[i].State {
				if v.T == "regex" { // no regular expression objects at ECAL level
					p.Rules[i].State[k] = c01Val{T: "str", S: "ab"}
				}
			}
		}
	}
	ns := 1 + r.Intn(3)
	for i := 0; i < ns; i++ {
		sc := map[string]bool{}
		if i == 0 || r.Bool(0.5) {
			sc[""] = r.Bool(0.8)
		}
		n := r.Intn(3)
		for k := 0; k < n; k++ {
			sc[c01GenScopePath(r)] = r.Bool(0.5)
		}
		p.Scopes = append(p.Scopes, sc)
	}
	if !p.ViaECAL && !many && r.Bool(0.15) {
		// a reload: the same number of rules, a few of them with other kind patterns
		rl := &c01Reload{Rules: append([]c01Rule(nil), p.Rules...)}
		for i := range rl.Rules {
			if r.Bool(0.4) {
				nr := rl.Rules[i]
				nr.Kinds = []string{c01GenKind(r, true)}
				rl.Rules[i] = nr
			}
		}
		var evs []c01Event
		for i := 0; i < 2+r.Intn(4); i++ {
			evs = append(evs, c01GenEvent(r, p, 1, containers))
		}
		rl.Clients = [][]c01Event{evs}
		p.Reload = rl
		p.RaceReset = r.Bool(0.4)
	}
	nc := 1 + r.Intn(3)
	for c := 0; c < nc; c++ {
		var evs []c01Event
		n := 2 + r.Intn(5)
		if tier == "thorough" {
			n = 2 + r.Intn(9)
		}
		for i := 0; i < n; i++ {
			e := c01GenEvent(r, p, 0, containers)
			if many && r.Bool(0.7) {
				e.Kind = manyKind
				e.Segs = nil
			}
			if family {
				e.Kind = []string{"a.a", "a.b", "a.c"}[r.Intn(3)]
				e.Segs = nil
				e.Wait = r.Bool(0.2)
				e.PauseNs = 0
			}
			evs = append(evs, e)
		}
		p.Clients = append(p.Clients, evs)
	}
	if r.Bool(0.15) {
		// some cascades use the processor's default scope (no scope given); a few of their
		// owners then edit the scope of their own root monitor
		edit := func(e *c01Event) {
			if r.Bool(0.5) {
				e.DefScope = true
				if r.Bool(0.4) {
					e.Edit = map[string]bool{}
					for k := 0; k < 1+r.Intn(2); k++ {
						e.Edit[c01GenScopePath(r)] = r.Bool(0.3)
					}
				}
			}
		}
		for c := range p.Clients {
			for i := range p.Clients[c] {
				edit(&p.Clients[c][i])
			}
		}
		if p.Reload != nil {
			for i := range p.Reload.Clients[0] {
				edit(&p.Reload.Clients[0][i])
			}
		}
	}
	if !p.ViaECAL && r.Bool(0.1) {
		p.ReuseScopes = true
		for c := range p.Clients {
			for i := range p.Clients[c] {
				e := &p.Clients[c][i]
				e.Wait, e.DefScope, e.Edit = true, false, nil
				if i > 0 && r.Bool(0.5) {
					e.Edit = map[string]bool{c01GenScopePath(r): r.Bool(0.5)}
				}
			}
		}
	}
	if r.Bool(0.004) {
		p.Flood = 4000 + r.Intn(400)
	}
	if p.RaceReset {
		// (no child events: an action that adds one while the processor is stopping is
		// refused - DESIGN.md 9, observations)
		for c := range p.Clients {
			for i := range p.Clients[c] {
				p.Clients[c][i].Children = nil
			}
		}
	}
	if p.Reload != nil {
		// events of kinds already seen before the reload (the pre-check cache must not survive it)
		for i := range p.Reload.Clients[0] {
			if r.Bool(0.6) {
				src := p.Clients[r.Intn(len(p.Clients))]
				e := src[r.Intn(len(src))]
				p.Reload.Clients[0][i].Kind, p.Reload.Clients[0][i].Segs = e.Kind, e.Segs
			}
			p.Reload.Clients[0][i].Scope = r.Intn(len(p.Scopes))
		}
	}
	return p
}

func c01Shrink(pi interface{}) []interface{} {
	p := pi.(*c01Plan)
	var out []interface{}
	clone := func() *c01Plan {
		q := *p
		q.Rules = append([]c01Rule(nil), p.Rules...)
		q.Clients = nil
		for _, c := range p.Clients {
			q.Clients = append(q.Clients, append([]c01Event(nil), c...))
		}
		return &q
	}
	for i := range p.Clients {
		if len(p.Clients) > 1 {
			q := clone()
			q.Clients = append(q.Clients[:i], q.Clients[i+1:]...)
			out = append(out, q)
		}
		for j := range p.Clients[i] {
			if len(p.Clients[i]) > 1 {
				q := clone()
				q.Clients[i] = append(q.Clients[i][:j], q.Clients[i][j+1:]...)
				out = append(out, q)
			}
			if len(p.Clients[i][j].Children) > 0 {
				q := clone()
				q.Clients[i][j].Children = nil
				out = append(out, q)
			}
		}
	}
	// drop rules (halves first when there are many)
	if len(p.Rules) > 8 {
		q := clone()
		q.Rules = q.Rules[:len(q.Rules)/2]
		out = append(out, q)
		q = clone()
		q.Rules = q.Rules[len(q.Rules)/2:]
		out = append(out, q)
	}
	if len(p.Rules) <= 24 {
		for i := range p.Rules {
			if len(p.Rules) > 1 {
				q := clone()
				q.Rules = append(q.Rules[:i], q.Rules[i+1:]...)
				out = append(out, q)
			}
			ru := p.Rules[i]
			if len(ru.Kinds) > 1 {
				for k := range ru.Kinds {
					q := clone()
					nr := ru
					nr.Kinds = append(append([]string(nil), ru.Kinds[:k]...), ru.Kinds[k+1:]...)
					q.Rules[i] = nr
					out = append(out, q)
				}
			}
			if len(ru.Suppress) > 0 || len(ru.Scope) > 0 {
				q := clone()
				nr := ru
				nr.Suppress, nr.Scope = nil, []string{}
				q.Rules[i] = nr
				out = append(out, q)
			}
			if len(ru.State) > 0 {
				for k := range ru.State {
					q := clone()
					nr := ru
					nr.State = map[string]c01Val{}
					for kk, vv := range ru.State {
						if kk != k {
							nr.State[kk] = vv
						}
					}
					q.Rules[i] = nr
					out = append(out, q)
				}
			}
		}
	}
	if p.Workers > 1 {
		q := clone()
		q.Workers = 1
		out = append(out, q)
	}
	if p.ViaECAL {
		q := clone()
		q.ViaECAL = false
		out = append(out, q)
	}
	if p.Reload != nil {
		q := clone()
		q.Reload = nil
		out = append(out, q)
	}
	return out
}

func (v c01Val) ecalText() string {
	switch v.T {
	case "num":
		return fmt.Sprint(v.N)
	case "str", "regex":
		return fmt.Sprintf("%q", v.S)
	case "list":
		if v.S == "str" {
			return fmt.Sprintf("[\"%v\"]", v.N)
		}
		return fmt.Sprintf("[%v]", v.N)
	case "map":
		if v.S == "#1" {
			return "{1: 1}"
		}
		return fmt.Sprintf("{%q: 1}", v.S)
	}
	return "null"
}

func c01Sinks(p *c01Plan) string {
	var b strings.Builder
	q := func(xs []string) string {
		var o []string
		for _, x := range xs {
			o = append(o, fmt.Sprintf("%q", x))
		}
		return "[" + strings.Join(o, ", ") + "]"
	}
	for _, ru := range p.Rules {
		fmt.Fprintf(&b, "sink %s\n    kindmatch %s,\n", ru.Name, q(ru.Kinds))
		if len(ru.Scope) > 0 {
			fmt.Fprintf(&b, "    scopematch %s,\n", q(ru.Scope))
		}
		if ru.HasState {
			keys := make([]string, 0, len(ru.State))
			for k := range ru.State {
				keys = append(keys, k)
			}
			sort.Strings(keys)
			var kv []string
			for _, k := range keys {
				kv = append(kv, fmt.Sprintf("%q: %s", k, ru.State[k].ecalText()))
			}
			fmt.Fprintf(&b, "    statematch {%s},\n", strings.Join(kv, ", "))
		}
		if len(ru.Suppress) > 0 {
			fmt.Fprintf(&b, "    suppresses %s,\n", q(ru.Suppress))
		}
		fmt.Fprintf(&b, "    priority %d\n{\n    fired(%q, event.state.evid)\n}\n", ru.Prio, ru.Name)
	}
	return b.String()
}

// ---------------------------------------------------------------------------
// reference matcher: a direct transcription of the property statement

func (v c01Val) goValue() interface{} {
	switch v.T {
	case "null":
		return nil
	case "num":
		return v.N
	case "str":
		return v.S
	case "regex":
		return regexp.MustCompile(v.S)
	case "list":
		if v.S == "str" {
			return []interface{}{fmt.Sprint(v.N)}
		}
		return []interface{}{v.N}
	case "map":
		if v.S == "#1" {
			return map[interface{}]interface{}{1.0: 1.0}
		}
		return map[interface{}]interface{}{v.S: 1.0}
	}
	return nil
}

func (v c01Val) container() bool { return v.T == "list" || v.T == "map" }

func (e *c01Event) segs() []string {
	if len(e.Segs) > 0 {
		return e.Segs
	}
	return strings.Split(e.Kind, ".")
}

func refKindMatchSegs(pattern string, ks []string) bool {
	ps := strings.Split(pattern, ".")
	if len(ps) != len(ks) {
		return false
	}
	for i := range ps {
		if ps[i] != "*" && ps[i] != ks[i] {
			return false
		}
	}
	return true
}

func refKindMatch(pattern, kind string) bool {
	ps, ks := strings.Split(pattern, "."), strings.Split(kind, ".")
	if len(ps) != len(ks) {
		return false
	}
	for i := range ps {
		if ps[i] != "*" && ps[i] != ks[i] {
			return false
		}
	}
	return true
}

// refStateMatch returns (matches, defined); defined is always true now that
// "equal value" is read as structural equality for lists and maps.
func refStateMatch(ru *c01Rule, ev *c01Event) (bool, bool) {
	if !ru.HasState {
		return true, true
	}
	defined := true
	keys := make([]string, 0, len(ru.State))
	for k := range ru.State {
		keys = append(keys, k)
	}
	sort.Strings(keys)
	for _, k := range keys {
		want := ru.State[k]
		have, ok := ev.State[k]
		if !ok {
			return false, true
		}
		switch want.T {
		case "null":
			continue
		case "regex":
			var s string
			switch have.T {
			case "null":
				s = "<nil>"
			case "num":
				s = fmt.Sprint(have.N)
			case "str":
				s = have.S
			default:
				s = fmt.Sprint(have.goValue())
			}
			if !regexp.MustCompile(want.S).MatchString(s) {
				return false, true
			}
		default:
			// lists and maps: equal means structurally equal
			if want.T != have.T || want.S != have.S || want.N != have.N {
				return false, true
			}
		}
	}
	return true, defined
}

func refScopeAllowed(scope map[string]bool, path string) bool {
	allowed := false
	best := -1
	var segs []string
	if path != "" {
		segs = strings.Split(path, ".")
	}
	for def, allow := range scope {
		var ds []string
		if def != "" {
			ds = strings.Split(def, ".")
		}
		if len(ds) > len(segs) {
			continue
		}
		pre := true
		for i := range ds {
			if ds[i] != segs[i] {
				pre = false
				break
			}
		}
		if pre && len(ds) > best {
			best, allowed = len(ds), allow
		}
	}
	return allowed
}

// refExpected returns the rules that must fire (exactly once) and those for
// which the statement leaves the outcome open (container comparisons).
func refExpected(p *c01Plan, ev *c01Event) (must map[string]bool, open map[string]bool) {
	must, open = map[string]bool{}, map[string]bool{}
	scope := ev.scopeMap(p)
	cand := map[string]bool{}
	candOpen := map[string]bool{}
	for i := range p.Rules {
		ru := &p.Rules[i]
		km := false
		for _, pat := range ru.Kinds {
			if refKindMatchSegs(pat, ev.segs()) {
				km = true
			}
		}
		if !km {
			continue
		}
		inScope := true
		for _, sp := range ru.Scope {
			if !refScopeAllowed(scope, sp) {
				inScope = false
			}
		}
		if !inScope {
			continue
		}
		m, def := refStateMatch(ru, ev)
		if !m {
			continue
		}
		if def {
			cand[ru.Name] = true
		} else {
			candOpen[ru.Name] = true
		}
	}
	supp := map[string]bool{}
	suppOpen := map[string]bool{}
	for i := range p.Rules {
		ru := &p.Rules[i]
		for _, s := range ru.Suppress {
			if cand[ru.Name] {
				supp[s] = true
			} else if candOpen[ru.Name] {
				suppOpen[s] = true
			}
		}
	}
	for n := range cand {
		switch {
		case supp[n]:
		case suppOpen[n]:
			open[n] = true
		default:
			must[n] = true
		}
	}
	for n := range candOpen {
		if !supp[n] {
			open[n] = true
		}
	}
	return
}

// ---------------------------------------------------------------------------

type c01Inst struct {
	view          *c01Plan // the rule set that was loaded when the event was added
	id            int
	ev            *c01Event
	fired         map[string]int
	added         bool
	skipped       bool
	childrenAdded bool
}

func c01Run(p *c01Plan) {
	engine.UnitTestResetIDs()
	var proc engine.Processor
	var erp *interpreter.ECALRuntimeProvider
	if p.ViaECAL {
		erp, _ = newProvider(p.Workers, nil)
		proc = erp.Processor
	} else {
		proc = engine.NewProcessor(p.Workers)
	}
	var insts []*c01Inst
	view := p
	newInst := func(ev *c01Event) *c01Inst {
		in := &c01Inst{view: view, id: len(insts), ev: ev, fired: map[string]int{}}
		insts = append(insts, in)
		return in
	}
	byObject := map[*engine.Event]int{}
	mkEvent := func(in *c01Inst) *engine.Event {
		if in.ev.NoState && !p.ViaECAL {
			var st map[interface{}]interface{}
			if in.id%2 == 1 {
				st = map[interface{}]interface{}{}
			}
			e := engine.NewEvent(in.ev.Name, in.ev.segs(), st)
			byObject[e] = in.id
			return e
		}
		st := map[interface{}]interface{}{"__id": in.id, "evid": float64(in.id)}
		for k, v := range in.ev.State {
			st[k] = v.goValue()
		}
		return engine.NewEvent(in.ev.Name, in.ev.segs(), st)
	}
	var addEvent func(in *c01Inst, m engine.Monitor, wait bool)
	action := func(name string) engine.RuleAction {
		return func(pr engine.Processor, m engine.Monitor, e *engine.Event, tid uint64) error {
			id, ok := e.State()["__id"].(int)
			if !ok {
				id, ok = byObject[e]
			}
			if !ok || id < 0 || id >= len(insts) {
				simrt.Fail("oracle:foreign-event", "foreign-event", "rule %s fired for an unknown event %v", name, e)
			}
			in := insts[id]
			in.fired[name]++
			if !in.childrenAdded {
				in.childrenAdded = true
				for ci := range in.ev.Children {
					c := &in.ev.Children[ci]
					c.Scope, c.DefScope, c.Edit, c.eff = in.ev.Scope, in.ev.DefScope, in.ev.Edit, in.ev.eff
					ch := newInst(c)
					addEvent(ch, m.NewChildMonitor(c.PauseNs%3), false)
				}
			}
			return nil
		}
	}
	if p.ViaECAL {
		vs := newGlobalScope()
		vs.SetValue("fired", &goFunc{name: "fired", fis: func(is map[string]interface{}, tid uint64, args []interface{}) (interface{}, error) {
			id, _ := num(args[1])
			if int(id) < 0 || int(id) >= len(insts) {
				simrt.Fail("oracle:foreign-event", "foreign-event", "sink %v fired for an unknown event id %v", args[0], args[1])
			}
			m, _ := is["monitor"].(engine.Monitor)
			if m == nil {
				simrt.Fail("oracle:harness", "no-monitor", "sink invocation without monitor in its instance state")
			}
			return nil, action(fmt.Sprint(args[0]))(proc, m, mkEvent(insts[int(id)]), tid)
		}})
		src := c01Sinks(p)
		if _, err := loadProgram(erp, "c01", src, vs); err != nil {
			simrt.Fail("oracle:add-rule", "add-rule", "sink declarations do not load: %v\n%s", err, src)
		}
	}
	addRules := func(rules []c01Rule) {
		for i := range rules {
			if p.ViaECAL {
				break
			}
			ru := &rules[i]
			r := &engine.Rule{Name: ru.Name, KindMatch: ru.Kinds, ScopeMatch: ru.Scope, Priority: ru.Prio, SuppressionList: ru.Suppress, Action: action(ru.Name)}
			if ru.HasState {
				r.StateMatch = map[string]interface{}{}
				for k, v := range ru.State {
					r.StateMatch[k] = v.goValue()
				}
			}
			if err := proc.AddRule(r); err != nil {
				simrt.Fail("oracle:add-rule", "add-rule", "AddRule(%s): %v", ru.Name, err)
			}
		}
	}
	if len(p.Rules)%3 == 0 && !p.ViaECAL {
		// a rule the processor must refuse (no kind pattern): it is not part of the rule set
		if err := proc.AddRule(&engine.Rule{Name: "refused", KindMatch: nil, ScopeMatch: []string{}, Action: action("refused")}); err == nil {
			simrt.Fail("oracle:add-rule", "add-rule", "a rule without kind patterns was accepted")
		}
		simrt.Count("reach_rule_refused")
	}
	addRules(p.Rules)
	proc.Start()
	addEvent = func(in *c01Inst, m engine.Monitor, wait bool) {
		var res engine.Monitor
		var err error
		in.added = true
		if wait {
			res, err = proc.AddEventAndWait(mkEvent(in), m.(*engine.RootMonitor))
		} else {
			res, err = proc.AddEvent(mkEvent(in), m)
		}
		if err != nil {
			simrt.Fail("oracle:add-error", "add-error", "AddEvent: %v", err)
		}
		if res == nil {
			in.skipped = true
			must, _ := refExpected(in.view, in.ev)
			if len(must) > 0 {
				simrt.Fail("oracle:event-skipped", "event-skipped",
					"event %q of kind %s state %v was reported as not triggering (nil monitor) although rule(s) %v match it", in.ev.Name, fmt.Sprintf("%q", in.ev.segs()), in.ev.State, keysOf(must))
			}
		}
		if wait && res != nil {
			c01CheckInst(in.view, in, "AddEventAndWait returned")
		}
	}
	settle := true
	runClients := func(clients [][]c01Event, tag string) {
		var wg simsync.WaitGroup
		for ci, evs := range clients {
			evs := evs
			wg.Add(1)
			simrt.Go(fmt.Sprintf("%sclient%d", tag, ci), func() {
				defer wg.Done()
				// reuse mode: this client's scope objects and what has been defined in them so far
				objs := map[int]*engine.RuleScope{}
				defs := map[int]map[string]bool{}
				for i := range evs {
					ev := &evs[i]
					if ev.PauseNs > 0 {
						simtime.Sleep(simtime.Duration(ev.PauseNs))
					}
					in := newInst(ev)
					var rm *engine.RootMonitor
					if p.ReuseScopes && tag == "" {
						if objs[ev.Scope] == nil {
							objs[ev.Scope] = engine.NewRuleScope(p.Scopes[ev.Scope])
							defs[ev.Scope] = map[string]bool{}
							for k, v := range p.Scopes[ev.Scope] {
								defs[ev.Scope][k] = v
							}
						}
						for _, k := range keysOf(ev.Edit) {
							objs[ev.Scope].Add(k, ev.Edit[k])
							defs[ev.Scope][k] = ev.Edit[k]
							simrt.Count("reach_scope_object_redefined_between_uses")
						}
						ev.eff = map[string]bool{}
						for k, v := range defs[ev.Scope] {
							ev.eff[k] = v
						}
						rm = proc.NewRootMonitor(nil, objs[ev.Scope])
					} else if ev.DefScope {
						rm = proc.NewRootMonitor(nil, nil)
						for _, k := range keysOf(ev.Edit) {
							rm.Scope().Add(k, ev.Edit[k])
						}
						simrt.Count("reach_default_scope")
					} else {
						rm = proc.NewRootMonitor(nil, engine.NewRuleScope(p.Scopes[ev.Scope]))
					}
					addEvent(in, rm, ev.Wait)
				}
			})
		}
		wg.Wait()
		if !settle {
			return
		}
		simrt.WaitQuiescent()
		for _, in := range insts {
			if in.added {
				c01CheckInst(in.view, in, "end of phase (quiescent)")
			}
		}
	}
	if p.Flood > 0 {
		// a long history of distinct kinds nothing matches (whatever memo the pre-check keeps
		// has seen thousands of kinds by the time the real events arrive)
		simrt.Count("reach_kind_flood")
		for i := 0; i < p.Flood; i++ {
			e := engine.NewEvent("flood", []string{"zz", fmt.Sprint(i), "q", "q"}, map[interface{}]interface{}{})
			if m, err := proc.AddEvent(e, proc.NewRootMonitor(nil, nil)); err != nil || m != nil {
				simrt.Fail("oracle:firing", "firing/must-not-fire", "event of kind zz.%d.q.q (no rule has a pattern of four segments) was not skipped: %v %v", i, m, err)
			}
		}
	}
	if p.Reload != nil && p.RaceReset {
		// events may still be queued when Finish() is called; meanwhile another goroutine
		// tries to reset the processor until it is allowed to. Every event that was accepted
		// is still processed with the rules that were loaded when it was added
		settle = false
		runClients(p.Clients, "")
		settle = true
		simrt.Count("fault_reset_racing_finish")
		resetDone := &hbFlag{}
		simrt.Go("resetter", func() {
			for proc.Reset() != nil {
				simrt.Yield()
			}
			resetDone.set()
		})
		proc.Finish()
		for !resetDone.get() {
			simrt.Yield()
		}
		for _, in := range insts {
			if in.added {
				c01CheckInst(in.view, in, "after Finish() (a concurrent Reset() had to wait for it)")
			}
		}
	} else {
		runClients(p.Clients, "")
		proc.Finish()
	}
	if p.Reload != nil {
		simrt.Count("fault_reload_rules")
		if err := proc.Reset(); err != nil {
			simrt.Fail("oracle:reset", "reset-error", "Reset after Finish: %v", err)
		}
		view = &c01Plan{Workers: p.Workers, Rules: p.Reload.Rules, Scopes: p.Scopes}
		addRules(p.Reload.Rules)
		proc.Start()
		runClients(p.Reload.Clients, "reload-")
		proc.Finish()
	}
}

func keysOf(m map[string]bool) []string {
	var k []string
	for x := range m {
		k = append(k, x)
	}
	sort.Strings(k)
	return k
}

func c01CheckInst(p *c01Plan, in *c01Inst, when string) {
	must, open := refExpected(p, in.ev)
	var diff []string
	for n := range must {
		if in.fired[n] != 1 {
			diff = append(diff, fmt.Sprintf("%s fired %d times (want 1)", n, in.fired[n]))
		}
	}
	for n, c := range in.fired {
		if must[n] {
			continue
		}
		if open[n] {
			if c > 1 {
				diff = append(diff, fmt.Sprintf("%s fired %d times", n, c))
			}
			continue
		}
		diff = append(diff, fmt.Sprintf("%s fired %d times (must not fire)", n, c))
	}
	if len(diff) > 0 {
		sort.Strings(diff)
		sig := "firing/must-not-fire"
		all := strings.Join(diff, ";")
		if strings.Contains(all, "fired 0 times (want 1)") {
			sig = "firing/not-fired"
		}
		for _, d := range diff {
			if !strings.Contains(d, "fired 0 times") && !strings.Contains(d, "fired 1 times") {
				sig = "firing/fired-more-than-once"
			}
		}
		simrt.Fail("oracle:firing", sig, "%s: event %q kind %s state %v scope %v: %s", when, in.ev.Name, fmt.Sprintf("%q", in.ev.segs()), in.ev.State, in.ev.scopeMap(p), strings.Join(diff, "; "))
	}
}
