package main

import (
	"fmt"
	"strings"

	"ecalharness/harness/gen07"
	"github.com/krotik/ecal/parser"
	"simrt"
)

// C07, scheduler-engine part.  The bubble engine (harness/bubble) decides the
// goroutine-lifetime and termination clauses on uninstrumented code; here the same
// inputs are parsed with the lexer running as a managed task, so that a panic inside
// the lexer goroutine - which no caller can recover and which would take the whole
// process down - is caught by the simulator and reported as a violation with its
// input, and the tree-shape invariants ride along.

type c07sPlan struct {
	Inputs []gen07.Plan `json:"inputs"`
}

func init() {
	register(&Workload{ID: "C07", Gen: func(r *simrt.RNG, tier string) interface{} {
		p := &c07sPlan{}
		n := 2 + r.Intn(5)
		for i := 0; i < n; i++ {
			p.Inputs = append(p.Inputs, gen07.GenInput(r, tier))
		}
		return p
	}, New: func() interface{} { return &c07sPlan{} }, Run: func(pi interface{}) { c07sRun(pi.(*c07sPlan)) },
		Shrink: func(pi interface{}) []interface{} {
			p := pi.(*c07sPlan)
			var out []interface{}
			for i := range p.Inputs {
				if len(p.Inputs) > 1 {
					q := &c07sPlan{Inputs: append(append([]gen07.Plan(nil), p.Inputs[:i]...), p.Inputs[i+1:]...)}
					out = append(out, q)
				}
			}
			// shorten the inputs: drop lines, then bytes from either end
			for i, in := range p.Inputs {
				mk := func(s string) {
					q := &c07sPlan{Inputs: append([]gen07.Plan(nil), p.Inputs...)}
					q.Inputs[i] = gen07.Plan{Input: s, Kind: in.Kind}
					out = append(out, q)
				}
				lines := strings.Split(in.Input, "\n")
				if len(lines) > 1 {
					for k := range lines {
						mk(strings.Join(append(append([]string(nil), lines[:k]...), lines[k+1:]...), "\n"))
					}
				}
				if n := len(in.Input); n > 1 {
					mk(in.Input[n/2:])
					mk(in.Input[:n/2])
					mk(in.Input[1:])
					mk(in.Input[:n-1])
				}
			}
			return out
		}, Budget: 4_000_000})
}

func c07sRun(p *c07sPlan) {
	for i, in := range p.Inputs {
		ast, err := parser.Parse(fmt.Sprintf("c07-%d", i), in.Input)
		if (ast == nil) == (err == nil) {
			simrt.Fail("oracle:tree-xor-error", "tree-xor-error", "Parse(%q) returned tree=%v error=%v (want exactly one)", in.Input, ast != nil, err)
		}
		if err != nil {
			if _, ok := err.(*parser.Error); !ok {
				simrt.Fail("oracle:error-kind", "error-not-positioned", "Parse(%q) returned an error that carries no source position: %T %v", in.Input, err, err)
			}
			continue
		}
		if msg := gen07.Shape(ast, "root"); msg != "" {
			simrt.Fail("oracle:tree-shape", "tree-shape/"+strings.SplitN(msg, ":", 2)[0], "Parse(%q): %s", in.Input, msg)
		}
	}
	// the lexer tasks of failed parses must be able to finish (C07's leak clause, here as
	// an invariant of the simulated run): nothing may still be blocked on a token channel
	simrt.WaitQuiescent()
	for _, b := range simrt.BlockedTasks() {
		if strings.Contains(b, "chan#") {
			simrt.Fail("goroutine-leak", "lexer-goroutine-outlives-parse", "after all parses returned a task is still blocked on a channel: %s", b)
		}
	}
}
