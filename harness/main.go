// Command harness runs seeded simulations of krotik/ecal workloads.  It is built
// by the driver (cmd/verif) against an instrumented scratch copy of /repo.
//
//	harness -mode explore  -prop C09 -seed S -from I -to J -budget 30s -tier quick -out DIR
//	harness -mode replay   -in replay.json [-trace]
//	harness -mode minimise -in violation.json -out replay.json
package main

import (
	"encoding/json"
	"flag"
	"fmt"
	"os"
	"path/filepath"
	"runtime"
	"sort"
	"strings"
	"sync/atomic"
	"time"

	"simrt"
)

// Workload is one property's simulation.
type Workload struct {
	ID      string
	Gen     func(r *simrt.RNG, tier string) interface{} // plan from seed (before the run)
	New     func() interface{}                          // empty plan for JSON decoding
	Run     func(plan interface{})                      // root task; reports via simrt.Fail
	Shrink  func(plan interface{}) []interface{}        // structurally smaller plans
	HB      bool
	Budget  int64 // probe budget per run
	Trivial func(plan interface{}) bool
}

var workloads = map[string]*Workload{}

func register(w *Workload) { workloads[w.ID] = w }

// Violation is what a worker reports and what a replay file contains.
type Violation struct {
	Property string          `json:"property"`
	Class    string          `json:"class"`
	Sig      string          `json:"signature"`
	Msg      string          `json:"message"`
	BaseSeed uint64          `json:"base_seed"`
	RunIndex int64           `json:"run_index"`
	Plan     json.RawMessage `json:"plan"`
	Tape     []int           `json:"tape"`
	Trace    []string        `json:"trace,omitempty"`
	Stack    string          `json:"stack,omitempty"`
	Blocked  []string        `json:"blocked,omitempty"`
	Minimal  bool            `json:"minimised"`
	OrigLen  int             `json:"original_tape_len,omitempty"`
}

// Stats is the per-worker summary line.
type Stats struct {
	Property    string            `json:"property"`
	Runs        int64             `json:"runs"`
	Nontrivial  int64             `json:"nontrivial_runs"`
	Decisions   int64             `json:"decisions"`
	Probes      int64             `json:"probes"`
	Switches    int64             `json:"switches"`
	Preempts    int64             `json:"preempts"`
	WakeChoices int64             `json:"wake_choices"`
	TimerFires  int64             `json:"timer_fires"`
	EagerFires  int64             `json:"eager_timer_fires"`
	SimTimeNs   int64             `json:"sim_time_ns"`
	Tasks       int64             `json:"tasks"`
	Counters    map[string]int64  `json:"counters"`
	Policies    map[string]int64  `json:"policies"`
	Reruns      int64             `json:"determinism_reruns"`
	WallS       float64           `json:"wall_s"`
	Samples     []json.RawMessage `json:"samples"`
	Violations  int               `json:"violations"`
}

var watchdogStamp int64

func watchdog(limit time.Duration) {
	go func() {
		last := atomic.LoadInt64(&watchdogStamp)
		lastT := time.Now()
		for {
			time.Sleep(500 * time.Millisecond)
			cur := atomic.LoadInt64(&watchdogStamp)
			if cur != last {
				last, lastT = cur, time.Now()
				continue
			}
			if time.Since(lastT) > limit {
				buf := make([]byte, 1<<16)
				n := runtime.Stack(buf, true)
				fmt.Fprintf(os.Stderr, "HARNESS-WATCHDOG: a single run exceeded %v of wall clock\n%s\n", limit, buf[:n])
				os.Exit(2)
			}
		}
	}()
}

func loadSites(path string) {
	if path == "" {
		return
	}
	b, err := os.ReadFile(path)
	if err != nil {
		return
	}
	var sites []string
	if json.Unmarshal(b, &sites) == nil {
		simrt.SiteName = func(id int32) string {
			if int(id) < len(sites) && id >= 0 {
				return sites[id]
			}
			return fmt.Sprintf("site#%d", id)
		}
	}
}

func swarmPolicy(r *simrt.RNG) (simrt.Policy, string) {
	switch r.Intn(6) {
	case 0: // mostly run-to-block, rare pre-emption: shallow ordering bugs
		return simrt.Policy{NoPreempt: 0.85, ShortBias: 0.5, KeepCurrent: 0.1, TimerEager: 0.05, WakeOldest: 0.7, AfterUnlock: 0.01}, "sparse"
	case 1: // dense pre-emption
		return simrt.Policy{NoPreempt: 0.1, ShortBias: 0.8, KeepCurrent: 0.3, TimerEager: 0.15, WakeOldest: 0.5, AfterUnlock: 0.03}, "dense"
	case 2: // starvation: some tasks hardly ever run
		return simrt.Policy{NoPreempt: 0.4, ShortBias: 0.6, KeepCurrent: 0.2, Starve: true, TimerEager: 0.1, WakeOldest: 0.5, AfterUnlock: 0.02}, "starve"
	case 3: // eager timers: pollers and sleepers wake early
		return simrt.Policy{NoPreempt: 0.5, ShortBias: 0.5, KeepCurrent: 0.2, TimerEager: 0.5, WakeOldest: 0.3, AfterUnlock: 0.02}, "eager-timers"
	case 4: // pre-empt right behind critical sections, otherwise run to block
		return simrt.Policy{NoPreempt: 0.8, ShortBias: 0.5, KeepCurrent: 0.05, TimerEager: 0.05, WakeOldest: 0.5, AfterUnlock: 0.2}, "after-unlock"
	default:
		return simrt.Policy{NoPreempt: 0.5, ShortBias: 0.7, KeepCurrent: 0.25, TimerEager: 0.1, WakeOldest: 0.5, AfterUnlock: 0.03}, "mixed"
	}
}

func propSalt(id string) uint64 {
	var h uint64 = 1469598103934665603
	for i := 0; i < len(id); i++ {
		h = (h ^ uint64(id[i])) * 1099511628211
	}
	return h
}

func runOnce(w *Workload, plan interface{}, cfg simrt.Config) simrt.Result {
	atomic.AddInt64(&watchdogStamp, 1)
	if w.Budget != 0 && cfg.MaxProbes == 0 {
		cfg.MaxProbes = w.Budget
	}
	cfg.HB = true     // vector clocks + map-race detection in every workload
	cfg.HBVars = w.HB // package-level variable monitor (C13)
	return simrt.Run(cfg, func() { w.Run(plan) })
}

func sameFailure(a simrt.Result, class, sig string) bool {
	return a.Class == class && a.Sig == sig
}

func main() {
	mode := flag.String("mode", "explore", "explore | replay | minimise | selftest")
	prop := flag.String("prop", "", "property id")
	seed := flag.Uint64("seed", 1, "base seed")
	from := flag.Int64("from", 0, "first run index")
	stride := flag.Int64("stride", 1, "run index stride (number of workers)")
	maxRuns := flag.Int64("runs", 1<<62, "maximum number of runs")
	budget := flag.Duration("budget", 20*time.Second, "wall-clock budget")
	tier := flag.String("tier", "quick", "quick | thorough")
	out := flag.String("out", "", "output directory / file")
	in := flag.String("in", "", "input file (replay / minimise)")
	sites := flag.String("sites", "", "probe site table")
	trace := flag.Bool("trace", false, "print the readable trace on replay")
	rerunPct := flag.Int("rerun", 1, "percentage of runs re-executed from their tape (determinism check)")
	maxViol := flag.Int("maxviol", 6, "stop after this many distinct violations")
	flag.Parse()
	loadSites(*sites)
	watchdog(120 * time.Second)

	switch *mode {
	case "explore":
		w := workloads[*prop]
		if w == nil {
			fmt.Fprintln(os.Stderr, "unknown property", *prop)
			os.Exit(2)
		}
		os.Exit(explore(w, *seed, *from, *stride, *maxRuns, *budget, *tier, *out, *rerunPct, *maxViol))
	case "replay":
		os.Exit(replay(*in, *trace))
	case "minimise":
		os.Exit(minimise(*in, *out, *budget))
	case "selftest":
		w := workloads[*prop]
		if w == nil {
			fmt.Fprintln(os.Stderr, "unknown property", *prop)
			os.Exit(2)
		}
		os.Exit(selftest(w, *seed, *from, *maxRuns, *tier))
	default:
		fmt.Fprintln(os.Stderr, "unknown mode")
		os.Exit(2)
	}
}

func explore(w *Workload, base uint64, from, stride, maxRuns int64, budget time.Duration, tier, outDir string, rerunPct, maxViol int) int {
	start := time.Now()
	st := Stats{Property: w.ID, Counters: map[string]int64{}, Policies: map[string]int64{}}
	hashes := map[uint64]struct{}{}
	seenSig := map[string]bool{}
	var viols []Violation
	salt := propSalt(w.ID)
	for i, n := from, int64(0); n < maxRuns; i, n = i+stride, n+1 {
		if n%8 == 0 && time.Since(start) > budget {
			break
		}
		seed := simrt.Mix(base, salt, uint64(i))
		r := simrt.NewRNG(seed)
		plan := w.Gen(r, tier)
		pol, pname := swarmPolicy(r)
		cfg := simrt.Config{Seed: r.U64(), Policy: pol}
		res := runOnce(w, plan, cfg)
		st.Runs++
		st.Policies[pname]++
		st.Decisions += int64(res.Decisions)
		st.Probes += res.Probes
		st.Switches += int64(res.Switches)
		st.Preempts += int64(res.Preempts)
		st.WakeChoices += int64(res.WakeChoice)
		st.TimerFires += int64(res.TimerFires)
		st.EagerFires += int64(res.EagerFires)
		st.SimTimeNs += res.SimTimeNs
		st.Tasks += int64(res.Tasks)
		for k, v := range res.Counters {
			st.Counters[k] += v
		}
		if res.MaxLive >= 2 && (res.Preempts > 0 || res.WakeChoice > 0 || res.EagerFires > 0) {
			st.Nontrivial++
			hashes[res.Hash] = struct{}{}
		}
		if len(st.Samples) < 3 && res.MaxLive >= 2 && res.Preempts > 0 {
			pj, _ := json.Marshal(plan)
			head := res.Tape
			if len(head) > 40 {
				head = head[:40]
			}
			sj, _ := json.Marshal(map[string]interface{}{"run_index": i, "policy": pname, "plan": json.RawMessage(pj),
				"tape_len": len(res.Tape), "tape_head": head, "tasks": res.Tasks, "switches": res.Switches,
				"preemptions": res.Preempts, "trace_hash": fmt.Sprintf("%016x", res.Hash)})
			st.Samples = append(st.Samples, sj)
		}
		// determinism re-run of a sample of runs (always for violations)
		if res.Class != "" || (rerunPct > 0 && int(seed%100) < rerunPct) {
			st.Reruns++
			res2 := runOnce(w, plan, simrt.Config{Replay: true, Tape: res.Tape})
			if res2.Hash != res.Hash || res2.Class != res.Class || res2.Sig != res.Sig {
				pj, _ := json.Marshal(plan)
				fmt.Fprintf(os.Stderr, "HARNESS-NONDETERMINISM property=%s run=%d: first (class=%q sig=%q hash=%x) vs replay (class=%q sig=%q hash=%x)\nplan=%s\nmsg1=%s\nmsg2=%s\n",
					w.ID, i, res.Class, res.Sig, res.Hash, res2.Class, res2.Sig, res2.Hash, pj, res.Msg, res2.Msg)
				return 2
			}
		}
		if res.Class != "" {
			if res.Class == simrt.ClassBudget {
				// re-execute with 20x the budget: only a run that exhausts that too is
				// reported as non-termination
				res3 := runOnce(w, plan, simrt.Config{Replay: true, Tape: res.Tape, MaxProbes: 20 * effBudget(w)})
				if res3.Class == "" {
					st.Counters["slow_runs_not_reported"]++
					continue
				}
			}
			st.Violations++
			if !seenSig[res.Class+"|"+res.Sig] {
				seenSig[res.Class+"|"+res.Sig] = true
				pj, _ := json.Marshal(plan)
				viols = append(viols, Violation{Property: w.ID, Class: res.Class, Sig: res.Sig, Msg: res.Msg, BaseSeed: base,
					RunIndex: i, Plan: pj, Tape: res.Tape, Stack: res.Stack, Blocked: res.Blocked})
			}
			if len(viols) >= maxViol {
				break
			}
		}
	}
	st.WallS = time.Since(start).Seconds()
	if outDir != "" {
		os.MkdirAll(outDir, 0755)
		tag := fmt.Sprintf("%s-%d", w.ID, from)
		sb, _ := json.Marshal(st)
		os.WriteFile(filepath.Join(outDir, "stats-"+tag+".json"), sb, 0644)
		var hb strings.Builder
		hs := make([]uint64, 0, len(hashes))
		for h := range hashes {
			hs = append(hs, h)
		}
		sort.Slice(hs, func(a, b int) bool { return hs[a] < hs[b] })
		for _, h := range hs {
			fmt.Fprintf(&hb, "%016x\n", h)
		}
		os.WriteFile(filepath.Join(outDir, "hashes-"+tag+".txt"), []byte(hb.String()), 0644)
		for k, v := range viols {
			vb, _ := json.MarshalIndent(v, "", " ")
			os.WriteFile(filepath.Join(outDir, fmt.Sprintf("viol-%s-%d.json", tag, k)), vb, 0644)
		}
	}
	if len(viols) > 0 {
		return 1
	}
	return 0
}

func effBudget(w *Workload) int64 {
	if w.Budget != 0 {
		return w.Budget
	}
	return 5_000_000
}

func loadViolation(path string) (*Violation, *Workload, interface{}, error) {
	b, err := os.ReadFile(path)
	if err != nil {
		return nil, nil, nil, err
	}
	var v Violation
	if err := json.Unmarshal(b, &v); err != nil {
		return nil, nil, nil, err
	}
	w := workloads[v.Property]
	if w == nil {
		return nil, nil, nil, fmt.Errorf("unknown property %q", v.Property)
	}
	plan := w.New()
	if err := json.Unmarshal(v.Plan, plan); err != nil {
		return nil, nil, nil, err
	}
	return &v, w, plan, nil
}

// replay exits 1 iff the recorded violation reproduces (same class and
// signature), 0 if the run completes without it, 2 on trouble.
func replay(path string, trace bool) int {
	v, w, plan, err := loadViolation(path)
	if err != nil {
		fmt.Fprintln(os.Stderr, "replay:", err)
		return 2
	}
	maxp := int64(0)
	if v.Class == simrt.ClassBudget {
		maxp = 20 * effBudget(w)
	}
	res := runOnce(w, plan, simrt.Config{Replay: true, Tape: v.Tape, Trace: trace, MaxProbes: maxp})
	if trace {
		for _, l := range res.Trace {
			fmt.Println(l)
		}
	}
	fmt.Printf("replay: class=%q signature=%q\n  %s\n", res.Class, res.Sig, res.Msg)
	if res.Stack != "" {
		fmt.Println(res.Stack)
	}
	if sameFailure(res, v.Class, v.Sig) {
		fmt.Printf("REPRODUCED property=%s class=%s signature=%s\n", v.Property, v.Class, v.Sig)
		return 1
	}
	if res.Class != "" {
		fmt.Printf("DIFFERENT-FAILURE property=%s recorded=%s/%s got=%s/%s\n", v.Property, v.Class, v.Sig, res.Class, res.Sig)
		return 3
	}
	fmt.Printf("NOT-REPRODUCED property=%s\n", v.Property)
	return 0
}

// minimise shrinks plan and tape while the same violation (class, signature)
// persists, then writes the replay file including a readable trace.
func minimise(inPath, outPath string, budget time.Duration) int {
	v, w, plan, err := loadViolation(inPath)
	if err != nil {
		fmt.Fprintln(os.Stderr, "minimise:", err)
		return 2
	}
	start := time.Now()
	maxp := int64(0)
	if v.Class == simrt.ClassBudget {
		maxp = 20 * effBudget(w)
	}
	fails := func(p interface{}, tape []int) (bool, []int) {
		res := runOnce(w, p, simrt.Config{Replay: true, Tape: tape, MaxProbes: maxp})
		return sameFailure(res, v.Class, v.Sig), res.Tape
	}
	tape := v.Tape
	ok, t2 := fails(plan, tape)
	if !ok && v.Class == simrt.ClassBudget {
		// with 20x the probe budget the run ends (or spends its time elsewhere): slow, not
		// shown to be non-terminating - not a verdict
		fmt.Fprintln(os.Stderr, "BUDGET-NOT-CONFIRMED: the run that exhausted its probe budget does not show the same non-termination with 20x the budget")
		return 3
	}
	if !ok {
		fmt.Fprintln(os.Stderr, "minimise: recorded violation does not reproduce")
		return 2
	}
	tape = t2
	origLen := len(tape)
	timeUp := func() bool { return time.Since(start) > budget }

	// (1) structural shrinking of the plan; a changed plan shifts the decision
	// points, so besides the old tape a number of fresh seeds are tried.
	if w.Shrink != nil && v.Class != simrt.ClassBudget {
		progress := true
		for progress && !timeUp() {
			progress = false
			for ci, cand := range w.Shrink(plan) {
				if timeUp() {
					break
				}
				if ok, t := fails(cand, tape); ok {
					plan, tape, progress = cand, t, true
					break
				}
				found := false
				for k := 0; k < 150 && !found; k++ {
					r := simrt.NewRNG(simrt.Mix(uint64(ci), uint64(k), 77))
					pol, _ := swarmPolicy(r)
					res := runOnce(w, cand, simrt.Config{Seed: r.U64(), Policy: pol})
					if sameFailure(res, v.Class, v.Sig) {
						plan, tape, found = cand, res.Tape, true
					}
				}
				if found {
					progress = true
					break
				}
			}
		}
	}
	// (2) tape shrinking: truncate, zero blocks, lower single entries
	tape = trimZeros(tape)
	for size := len(tape) / 2; size >= 1 && !timeUp(); size /= 2 {
		for i := 0; i+size <= len(tape) && !timeUp(); {
			allZero := true
			for _, x := range tape[i : i+size] {
				if x != 0 {
					allZero = false
					break
				}
			}
			if allZero {
				i += size
				continue
			}
			c := append([]int(nil), tape...)
			for j := i; j < i+size; j++ {
				c[j] = 0
			}
			if ok, _ := fails(plan, c); ok {
				tape = trimZeros(c)
			}
			i += size
		}
	}
	for i := 0; i < len(tape) && !timeUp(); i++ {
		for tape[i] > 0 && !timeUp() {
			c := append([]int(nil), tape...)
			c[i]--
			if ok, _ := fails(plan, c); ok {
				tape = c
			} else {
				break
			}
		}
	}
	tape = trimZeros(tape)
	res := runOnce(w, plan, simrt.Config{Replay: true, Tape: tape, Trace: true, MaxProbes: maxp})
	if !sameFailure(res, v.Class, v.Sig) {
		fmt.Fprintln(os.Stderr, "minimise: minimised run does not reproduce (nondeterminism)")
		return 2
	}
	pj, _ := json.Marshal(plan)
	v.Plan = pj
	v.Tape = tape
	v.Msg = res.Msg
	v.Trace = res.Trace
	v.Stack = res.Stack
	v.Blocked = res.Blocked
	v.Minimal = true
	v.OrigLen = origLen
	vb, _ := json.MarshalIndent(v, "", " ")
	if err := os.WriteFile(outPath, vb, 0644); err != nil {
		fmt.Fprintln(os.Stderr, "minimise:", err)
		return 2
	}
	return 0
}

func trimZeros(t []int) []int {
	n := len(t)
	for n > 0 && t[n-1] == 0 {
		n--
	}
	return t[:n]
}

// selftest prints one line per run: index, class, signature, trace hash, tape
// hash.  The driver runs it in several processes at different GOMAXPROCS and
// diffs the output.
func selftest(w *Workload, base uint64, from, runs int64, tier string) int {
	salt := propSalt(w.ID)
	for i := from; i < from+runs; i++ {
		seed := simrt.Mix(base, salt, uint64(i))
		r := simrt.NewRNG(seed)
		plan := w.Gen(r, tier)
		pol, _ := swarmPolicy(r)
		res := runOnce(w, plan, simrt.Config{Seed: r.U64(), Policy: pol})
		var th uint64 = 1469598103934665603
		for _, x := range res.Tape {
			th = (th ^ uint64(x+1)) * 1099511628211
		}
		fmt.Printf("%d class=%q sig=%q hash=%016x tape=%016x/%d probes=%d ties=%d\n", i, res.Class, res.Sig, res.Hash, th, len(res.Tape),
			res.Probes, res.Counters["nondeterministic_ties"])
	}
	return 0
}
