package main

import (
	"fmt"
	"sort"
	"strings"

	"os"
	"path/filepath"

	"github.com/krotik/ecal/cli/tool"
	"github.com/krotik/ecal/config"
	"github.com/krotik/ecal/engine"
	"github.com/krotik/ecal/interpreter"
	"github.com/krotik/ecal/stdlib"
	"github.com/krotik/ecal/util"
	"simrt"
	"simrt/simsync"
	"simrt/simtime"
)

// C12 — mutex blocks of one name are mutually exclusive, re-entrant and always released.

type c12Block struct {
	Chain []string `json:"chain"` // nesting chain of mutex names, outermost first (global order a<b<c, repeats = re-entrant)
	Exit  string   `json:"exit"`  // fall | raise | return | break | continue | rterror
	Stall int      `json:"stall,omitempty"`
}

type c12Thread struct {
	Sink   bool       `json:"sink"` // run as a sink on a worker (else direct Eval with its own thread id)
	Blocks []c12Block `json:"blocks"`
	Times  int        `json:"times"` // how often the script is started (sinks: number of events)
}

type c12Plan struct {
	Workers     int         `json:"workers"`
	Threads     []c12Thread `json:"threads"`
	Cross       bool        `json:"cross,omitempty"`         // extra pair: A waits inside mutex x for a flag B sets inside mutex y
	Kill        int         `json:"kill,omitempty"`          // >0: an extra thread is suspended by a debugger inside `mutex a` and then killed (StopThreads) after Kill-1 scheduling rounds
	KillIn      int         `json:"kill_in,omitempty"`       // nesting depth (same name) at which the killed thread is suspended
	DeclInMutex bool        `json:"decl_in_mutex,omitempty"` // sinks are declared inside mutex blocks and carry their own blocks inline
	Console     *c12Console `json:"console,omitempty"`       // the program is the entry file of a cli/tool console (see c12ConsoleRun)
}

// c12Console: the console of cli/tool evaluates its entry file (a mutex block that
// stays inside for a while) on reload in a goroutine of its own while the user and
// further connections go on entering lines that enter blocks of the same name.
type c12Console struct {
	Stall   int   `json:"stall"`
	Reloads int   `json:"reloads"`
	Lines   []int `json:"lines"` // per extra connection: number of lines entering `mutex a`
	Gap     int   `json:"gap"`   // scheduling rounds between @reload and the user's next line
}

func init() {
	register(&Workload{ID: "C12", Gen: c12Gen, New: func() interface{} { return &c12Plan{} },
		Run: func(p interface{}) { c12Run(p.(*c12Plan)) }, Shrink: c12Shrink, Budget: 8_000_000})
}

var c12Exits = []string{"fall", "fall", "raise", "return", "break", "continue", "rterror"}

func c12Gen(r *simrt.RNG, tier string) interface{} {
	p := &c12Plan{Workers: 1 + r.Intn(4)}
	names := []string{"a", "b", "c"}[:1+r.Intn(3)]
	nt := 2 + r.Intn(3)
	if tier == "thorough" {
		nt = 2 + r.Intn(7)
		if r.Bool(0.1) {
			nt = 2 + r.Intn(15)
			p.Workers = 1 + r.Intn(8)
		}
	}
	for t := 0; t < nt; t++ {
		th := c12Thread{Sink: r.Bool(0.5), Times: 1 + r.Intn(2)}
		nb := 1 + r.Intn(3)
		for b := 0; b < nb; b++ {
			bl := c12Block{Exit: c12Exits[r.Intn(len(c12Exits))]}
			depth := 1 + r.Intn(3)
			lo := 0
			for d := 0; d < depth; d++ {
				if d > 0 && r.Bool(0.35) {
					// re-enter a name already held
					bl.Chain = append(bl.Chain, bl.Chain[r.Intn(len(bl.Chain))])
					continue
				}
				i := lo + r.Intn(len(names)-lo)
				bl.Chain = append(bl.Chain, names[i])
				lo = i
			}
			if r.Bool(0.4) {
				bl.Stall = 1 + r.Intn(3)
			}
			th.Blocks = append(th.Blocks, bl)
		}
		p.Threads = append(p.Threads, th)
	}
	p.Cross = r.Bool(0.2)
	p.DeclInMutex = r.Bool(0.15)
	if r.Bool(0.1) {
		p.Kill = 1 + r.Intn(6)
		p.KillIn = r.Intn(3)
	}
	if r.Bool(0.05) {
		p.Console = &c12Console{Stall: 1 + r.Intn(4), Reloads: 1 + r.Intn(2), Gap: r.Intn(8)}
		for i := 0; i < r.Intn(3); i++ {
			p.Console.Lines = append(p.Console.Lines, 1+r.Intn(3))
		}
		p.Threads, p.Cross, p.Kill = nil, false, 0
	}
	return p
}

func c12Shrink(pi interface{}) []interface{} {
	p := pi.(*c12Plan)
	if p.Console != nil {
		var out []interface{}
		c := p.Console
		mk := func(f func(n *c12Console)) {
			q := *p
			n := *c
			n.Lines = append([]int(nil), c.Lines...)
			f(&n)
			q.Console = &n
			out = append(out, &q)
		}
		if c.Reloads > 1 {
			mk(func(n *c12Console) { n.Reloads-- })
		}
		if len(c.Lines) > 0 {
			mk(func(n *c12Console) { n.Lines = n.Lines[1:] })
		}
		if c.Stall > 1 {
			mk(func(n *c12Console) { n.Stall = 1 })
		}
		if c.Gap > 0 {
			mk(func(n *c12Console) { n.Gap = 0 })
		}
		return out
	}
	if p.Kill > 0 {
		q := *p
		q.Kill, q.KillIn = 0, 0
		out := []interface{}{&q}
		if p.Kill > 1 || p.KillIn > 0 {
			r := *p
			r.Kill, r.KillIn = 1, 0
			out = append(out, &r)
		}
		return append(out, c12ShrinkRest(p)...)
	}
	return c12ShrinkRest(p)
}

func c12ShrinkRest(pi interface{}) []interface{} {
	p := pi.(*c12Plan)
	var out []interface{}
	clone := func() *c12Plan {
		q := *p
		q.Threads = nil
		for _, t := range p.Threads {
			nt := t
			nt.Blocks = nil
			for _, b := range t.Blocks {
				nb := b
				nb.Chain = append([]string(nil), b.Chain...)
				nt.Blocks = append(nt.Blocks, nb)
			}
			q.Threads = append(q.Threads, nt)
		}
		return &q
	}
	if p.Cross {
		q := clone()
		q.Cross = false
		out = append(out, q)
	}
	for i := range p.Threads {
		if len(p.Threads) > 1 {
			q := clone()
			q.Threads = append(q.Threads[:i], q.Threads[i+1:]...)
			out = append(out, q)
		}
		t := p.Threads[i]
		if t.Times > 1 {
			q := clone()
			q.Threads[i].Times = 1
			out = append(out, q)
		}
		for j := range t.Blocks {
			if len(t.Blocks) > 1 {
				q := clone()
				q.Threads[i].Blocks = append(q.Threads[i].Blocks[:j], q.Threads[i].Blocks[j+1:]...)
				out = append(out, q)
			}
			if len(t.Blocks[j].Chain) > 1 {
				q := clone()
				q.Threads[i].Blocks[j].Chain = q.Threads[i].Blocks[j].Chain[:len(t.Blocks[j].Chain)-1]
				out = append(out, q)
			}
			if t.Blocks[j].Exit != "fall" {
				q := clone()
				q.Threads[i].Blocks[j].Exit = "fall"
				out = append(out, q)
			}
			if t.Blocks[j].Stall > 0 {
				q := clone()
				q.Threads[i].Blocks[j].Stall = 0
				out = append(out, q)
			}
		}
	}
	if p.Workers > 1 {
		q := clone()
		q.Workers = p.Workers - 1
		out = append(out, q)
	}
	return out
}

func c12Program(p *c12Plan) string {
	var b strings.Builder
	b.WriteString("cnta := 0\ncntb := 0\ncntc := 0\n")
	var helpers strings.Builder
	for ti, th := range p.Threads {
		var body strings.Builder
		for bi, bl := range th.Blocks {
			// the mutex chain
			var blk strings.Builder
			ind := "    "
			pad := func(d int) string { return strings.Repeat("    ", d) + ind }
			for d, n := range bl.Chain {
				fmt.Fprintf(&blk, "%smutex %s {\n", pad(d), n)
				fmt.Fprintf(&blk, "%s    enter(%q)\n", pad(d), n)
				fmt.Fprintf(&blk, "%s    let tmp := cnt%s\n", pad(d), n)
				if bl.Stall > 0 {
					fmt.Fprintf(&blk, "%s    stall(%d)\n", pad(d), bl.Stall)
				}
				fmt.Fprintf(&blk, "%s    cnt%s := tmp + 1\n", pad(d), n)
			}
			last := len(bl.Chain) - 1
			// innermost: leave everything held, then take the exit
			if bl.Exit != "fall" {
				for d := last; d >= 0; d-- {
					fmt.Fprintf(&blk, "%s    leave(%q)\n", pad(last), bl.Chain[d])
				}
				switch bl.Exit {
				case "raise":
					fmt.Fprintf(&blk, "%s    raise(\"E\", \"x\")\n", pad(last))
				case "rterror":
					fmt.Fprintf(&blk, "%s    let z := 1 + \"a\"\n", pad(last))
				case "return":
					fmt.Fprintf(&blk, "%s    return 1\n", pad(last))
				case "break":
					fmt.Fprintf(&blk, "%s    break\n", pad(last))
				case "continue":
					fmt.Fprintf(&blk, "%s    continue\n", pad(last))
				}
			}
			for d := last; d >= 0; d-- {
				if bl.Exit == "fall" {
					fmt.Fprintf(&blk, "%s    leave(%q)\n", pad(d), bl.Chain[d])
				}
				fmt.Fprintf(&blk, "%s}\n", pad(d))
			}
			code := blk.String()
			switch bl.Exit {
			case "fall":
				body.WriteString(code)
			case "raise", "rterror":
				body.WriteString("    try {\n")
				body.WriteString(indent(code, "    "))
				body.WriteString("    } except {\n        caught()\n    }\n")
			case "return":
				fmt.Fprintf(&helpers, "func t%db%d() {\n%s}\n", ti, bi, code)
				fmt.Fprintf(&body, "    t%db%d()\n", ti, bi)
			case "break", "continue":
				body.WriteString("    for i in [1] {\n")
				body.WriteString(indent(code, "    "))
				body.WriteString("    }\n")
			}
		}
		fmt.Fprintf(&helpers, "func t%d() {\n%s    done(%d)\n}\n", ti, body.String(), ti)
		if th.Sink && p.DeclInMutex {
			// the sink is declared inside mutex blocks of all names and carries its blocks in
			// its own body: being declared inside a block is not the same as running inside it
			fmt.Fprintf(&helpers, "mutex a {\nmutex b {\nmutex c {\nsink sk%d\n    kindmatch [\"c12.t%d\"]\n{\n%s    done(%d)\n}\n}\n}\n}\n", ti, ti, body.String(), ti)
		} else if th.Sink {
			fmt.Fprintf(&helpers, "sink sk%d\n    kindmatch [\"c12.t%d\"]\n{\n    t%d()\n}\n", ti, ti, ti)
		}
	}
	if p.Cross {
		helpers.WriteString("func crossA() {\n    mutex x {\n        enter(\"x\")\n        waitflag()\n        leave(\"x\")\n    }\n    done(-1)\n}\n")
		helpers.WriteString("func crossB() {\n    mutex y {\n        enter(\"y\")\n        setflag()\n        leave(\"y\")\n    }\n    done(-2)\n}\n")
	}
	if p.Kill > 0 {
		helpers.WriteString("func victim() {\n")
		for d := 0; d <= p.KillIn; d++ {
			helpers.WriteString("    mutex a {\n    enter(\"a\")\n")
		}
		helpers.WriteString("    kp(1)\n    kp(2)\n")
		for d := 0; d <= p.KillIn; d++ {
			helpers.WriteString("    leave(\"a\")\n    }\n")
		}
		helpers.WriteString("    done(-3)\n}\n")
		// evaluated by the debugger (inject) on behalf of the suspended thread while the other
		// threads go on: one more thread entering blocks of name b
		helpers.WriteString("func injf() {\n    mutex b {\n        enter(\"b\")\n        let tmp := cntb\n        stall(2)\n        cntb := tmp + 1\n        leave(\"b\")\n    }\n    return 1\n}\n")
	}
	b.WriteString(helpers.String())
	return b.String()
}

func indent(s, by string) string {
	lines := strings.Split(strings.TrimRight(s, "\n"), "\n")
	for i := range lines {
		lines[i] = by + lines[i]
	}
	return strings.Join(lines, "\n") + "\n"
}

func c12Run(p *c12Plan) {
	if p.Console != nil {
		c12ConsoleRun(p)
		return
	}
	erp, _ := newProvider(p.Workers, nil)
	vs := newGlobalScope()
	occ := map[string]map[uint64]int{}
	doneCount := map[int]int{}
	caught := 0
	enters := map[string]int{}
	var fmu simsync.Mutex
	fcond := simsync.NewCond(&fmu)
	flag := false
	vs.SetValue("enter", &goFunc{name: "enter", f: func(tid uint64, args []interface{}) (interface{}, error) {
		n := fmt.Sprint(args[0])
		if occ[n] == nil {
			occ[n] = map[uint64]int{}
		}
		for other, d := range occ[n] {
			if other != tid && d > 0 {
				simrt.Fail("oracle:mutual-exclusion", "mutual-exclusion", "thread %d entered mutex block %q while thread %d is inside a block of the same name", tid, n, other)
			}
		}
		occ[n][tid]++
		enters[n]++
		if occ[n][tid] > 1 {
			simrt.Count("reentrant_entry")
		}
		return nil, nil
	}})
	vs.SetValue("leave", &goFunc{name: "leave", f: func(tid uint64, args []interface{}) (interface{}, error) {
		n := fmt.Sprint(args[0])
		if occ[n][tid] <= 0 {
			simrt.Fail("oracle:harness", "leave-without-enter", "leave(%q) by thread %d without enter", n, tid)
		}
		occ[n][tid]--
		return nil, nil
	}})
	vs.SetValue("stall", &goFunc{name: "stall", f: func(tid uint64, args []interface{}) (interface{}, error) {
		k, _ := num(args[0])
		simrt.Count("fault_stall_inside_mutex")
		if int(k)%2 == 1 {
			simtime.Sleep(simtime.Duration(3 * int(k)))
		} else {
			for i := 0; i < int(k); i++ {
				simrt.Yield()
			}
		}
		return nil, nil
	}})
	vs.SetValue("caught", &goFunc{name: "caught", f: func(tid uint64, args []interface{}) (interface{}, error) {
		caught++
		return nil, nil
	}})
	vs.SetValue("done", &goFunc{name: "done", f: func(tid uint64, args []interface{}) (interface{}, error) {
		k, _ := num(args[0])
		doneCount[int(k)]++
		return nil, nil
	}})
	vs.SetValue("waitflag", &goFunc{name: "waitflag", f: func(tid uint64, args []interface{}) (interface{}, error) {
		fmu.Lock()
		for !flag {
			fcond.Wait()
		}
		fmu.Unlock()
		return nil, nil
	}})
	vs.SetValue("setflag", &goFunc{name: "setflag", f: func(tid uint64, args []interface{}) (interface{}, error) {
		fmu.Lock()
		flag = true
		fcond.Broadcast()
		fmu.Unlock()
		return nil, nil
	}})
	vs.SetValue("kp", &goFunc{name: "kp", f: func(tid uint64, args []interface{}) (interface{}, error) {
		return nil, nil
	}})
	src := c12Program(p)
	var dbg util.ECALDebugger
	if p.Kill > 0 {
		dbg = interpreter.NewECALDebugger(vs)
		dbg.BreakOnError(false)
		erp.Debugger = dbg
		line := 0
		for i, l := range strings.Split(src, "\n") {
			if strings.TrimSpace(l) == "kp(1)" {
				line = i + 1
			}
		}
		dbgCmd(dbg, "C12", fmt.Sprintf("break c12:%d", line))
	}
	if _, err := loadProgram(erp, "c12", src, vs); err != nil {
		simrt.Fail("oracle:setup", "setup", "program does not load: %v\n%s", err, src)
	}
	erp.Processor.Start()

	injectedTotal := 0
	var wg simsync.WaitGroup
	evalThread := func(name, code string) {
		wg.Add(1)
		simrt.Go(name, func() {
			defer wg.Done()
			if _, err := loadProgram(erp, name, code, vs); err != nil {
				simrt.Fail("oracle:thread-error", "thread-error", "thread %s ended with error: %v", name, err)
			}
		})
	}
	var monitors []*engine.RootMonitor
	for ti, th := range p.Threads {
		for k := 0; k < th.Times; k++ {
			if th.Sink {
				rm := erp.Processor.NewRootMonitor(nil, nil)
				monitors = append(monitors, rm)
				if _, err := erp.Processor.AddEvent(engine.NewEvent(fmt.Sprintf("e%d_%d", ti, k), []string{"c12", fmt.Sprintf("t%d", ti)}, map[interface{}]interface{}{}), rm); err != nil {
					simrt.Fail("oracle:setup", "add-event", "AddEvent: %v", err)
				}
			} else {
				evalThread(fmt.Sprintf("eval-t%d-%d", ti, k), fmt.Sprintf("t%d()", ti))
			}
		}
	}
	if p.Cross {
		evalThread("crossA", "crossA()")
		evalThread("crossB", "crossB()")
	}
	if p.Kill > 0 {
		// one more way out of a block: the thread is ended by the debugger while it is
		// suspended inside. A later entrant must still get in.
		evalThread("victim", "victim()")
		var susp []uint64
		for len(susp) == 0 {
			simrt.Yield()
			susp = dbgSuspended(dbg, "C12")
		}
		victimTid := susp[0]
		for k := 0; k < p.KillIn+1 && p.Kill%2 == 0; k++ {
			// (the expression runs in the command's goroutine under a thread id of the debugger)
			simrt.Count("fault_inject_calls_function_with_mutex_block")
			dbgCmd(dbg, "C12", fmt.Sprintf("inject %d zz injf()", victimTid))
			injectedTotal++
			simrt.Yield()
		}
		for i := 1; i < p.Kill; i++ {
			simrt.Yield()
		}
		simrt.Count("fault_thread_killed_inside_mutex")
		delete(occ["a"], victimTid) // it executes nothing from here on; the lock is held until it has unwound
		dbg.StopThreads(0)
	}
	wg.Wait()
	simrt.WaitQuiescent()

	// every thread finished (a thread blocked on a mutex whose holder has left
	// shows up as a deadlock before we get here or as a missing done())
	for ti, th := range p.Threads {
		if doneCount[ti] != th.Times {
			simrt.Fail("oracle:thread-finished", "thread-not-finished", "script t%d finished %d times, started %d times (sink=%v)", ti, doneCount[ti], th.Times, th.Sink)
		}
	}
	for _, rm := range monitors {
		if errs := rm.AllErrors(); len(errs) > 0 {
			simrt.Fail("oracle:thread-error", "sink-error", "sink thread ended with error: %v", errs[0])
		}
	}
	if p.Cross && (doneCount[-1] != 1 || doneCount[-2] != 1) {
		simrt.Fail("oracle:different-names", "different-names-exclude", "cross pair did not finish: A=%d B=%d", doneCount[-1], doneCount[-2])
	}
	// no lost update: every level of every chain increments its counter once
	want := map[string]int{}
	for _, th := range p.Threads {
		for _, bl := range th.Blocks {
			for _, n := range bl.Chain {
				want[n] += th.Times
			}
		}
	}
	want["b"] += injectedTotal
	names := []string{"a", "b", "c"}
	sort.Strings(names)
	for _, n := range names {
		v, _, _ := vs.GetValue("cnt" + n)
		got, _ := num(v)
		if int(got) != want[n] {
			simrt.Fail("oracle:lost-update", "lost-update", "counter of mutex %q is %v after %d increments made only inside its blocks (%d entries observed)", n, v, want[n], enters[n])
		}
	}
	for n, m := range occ {
		for tid, d := range m {
			if d != 0 {
				simrt.Fail("oracle:harness", "occupancy-nonzero", "occupancy of %q by thread %d is %d at the end", n, tid, d)
			}
		}
	}
	erp.Processor.Finish()
}

// c12ConsoleRun: threads are the goroutines of the console (the user's thread, the
// reload goroutine, one thread per further connection); "inside" is observed per
// goroutine, whatever thread id the console handed to it.
func c12ConsoleRun(p *c12Plan) {
	c := p.Console
	dir := cliWorkDir()
	inside := map[string]map[int]int{} // name -> task id -> depth
	if err := stdlib.AddStdlibPkg("verif", "probes of the harness"); err != nil {
		simrt.Fail("oracle:setup", "setup", "AddStdlibPkg: %v", err)
	}
	add := func(name string, f func(tid uint64, args []interface{}) (interface{}, error)) {
		stdlib.AddStdlibFunc("verif", name, &goFunc{name: name, f: f})
	}
	add("enter", func(tid uint64, args []interface{}) (interface{}, error) {
		n, me := fmt.Sprint(args[0]), simrt.CurTask().ID
		if inside[n] == nil {
			inside[n] = map[int]int{}
		}
		for other, d := range inside[n] {
			if other != me && d > 0 {
				simrt.Fail("oracle:mutual-exclusion", "mutual-exclusion", "a thread of the console (task %d, thread id %d) entered mutex block %q while another one (task %d) is inside a block of the same name", me, tid, n, other)
			}
		}
		inside[n][me]++
		return nil, nil
	})
	add("leave", func(tid uint64, args []interface{}) (interface{}, error) {
		inside[fmt.Sprint(args[0])][simrt.CurTask().ID]--
		return nil, nil
	})
	add("stall", func(tid uint64, args []interface{}) (interface{}, error) {
		k, _ := num(args[0])
		simrt.Count("fault_stall_inside_mutex")
		for i := 0; i < int(k); i++ {
			simrt.Yield()
		}
		return nil, nil
	})
	entry := fmt.Sprintf("mutex a {\n    verif.enter(\"a\")\n    verif.stall(%d)\n    verif.leave(\"a\")\n}\n", c.Stall)
	if err := os.WriteFile(filepath.Join(dir, "c12.ecal"), []byte(entry), 0644); err != nil {
		simrt.Fail("oracle:setup", "setup", "cannot write the entry file: %v", err)
	}
	engine.UnitTestResetIDs()
	config.Config[config.WorkerCount] = p.Workers
	ci := tool.NewCLIInterpreter()
	empty, level, wd := "", "Error", "."
	ci.Dir, ci.LogFile, ci.LogLevel = &wd, &empty, &level
	ci.LoadPlugins = false
	ci.EntryFile = "c12.ecal"
	ci.LogOut = &strings.Builder{}
	ci.RuntimeProvider = interpreter.NewECALRuntimeProvider("sim console", &util.FileImportLocator{Root: dir}, util.NewMemoryLogger(100))
	ci.RuntimeProvider.Cron.Stop()
	if err := ci.Interpret(false); err != nil {
		simrt.Fail("oracle:setup", "setup", "Interpret: %v", err)
	}
	line := "mutex a {\n    verif.enter(\"a\")\n    verif.leave(\"a\")\n}"
	var wg simsync.WaitGroup
	for i, n := range c.Lines {
		n := n
		wg.Add(1)
		simrt.Go(fmt.Sprintf("connection%d", i), func() {
			defer wg.Done()
			tid := ci.RuntimeProvider.NewThreadID()
			for k := 0; k < n; k++ {
				ci.HandleInput(&memTerm{}, line, tid)
				simrt.Yield()
			}
		})
	}
	tid := ci.RuntimeProvider.NewThreadID() // the console user's thread
	for k := 0; k < c.Reloads; k++ {
		term := &memTerm{}
		simrt.Count("fault_console_reload")
		ci.HandleInput(term, "@reload", tid)
		for y := 0; y < c.Gap; y++ {
			simrt.Yield()
		}
		out := &memTerm{}
		ci.HandleInput(out, line, tid)
		if strings.TrimSpace(out.b.String()) != "" {
			simrt.Fail("oracle:thread-error", "thread-error", "console line ended with: %s", out.b.String())
		}
		for !strings.Contains(term.b.String(), "Interpreter reloaded") {
			simrt.Yield()
		}
		if !strings.Contains(term.b.String(), "Interpreter reloaded: <nil>") {
			simrt.Fail("oracle:thread-error", "thread-error", "reload ended with: %s", term.b.String())
		}
	}
	wg.Wait()
	simrt.WaitQuiescent()
	for n, m := range inside {
		for t, d := range m {
			if d != 0 {
				simrt.Fail("oracle:harness", "occupancy-nonzero", "occupancy of %q by task %d is %d at the end", n, t, d)
			}
		}
	}
	ci.RuntimeProvider.Processor.Finish()
}
