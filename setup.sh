#!/bin/sh
# Builds the framework from files on disk only (offline) and warms the Go build cache.
set -e
cd "$(dirname "$0")"
export PATH=/opt/veriftools/go1.26.8/bin:$PATH GOFLAGS=-mod=mod GOPROXY=off GOSUMDB=off GOTOOLCHAIN=local
mkdir -p bin evidence replays
go build -o bin/verif ./cmd/verif
go build -o bin/instrument ./cmd/instrument
(cd simrt && go build ./...)
echo setup ok
